package simworld

import (
	"fmt"

	execution "github.com/furiko-io/furiko/apis/execution/v1alpha1"
	"github.com/furiko-io/furiko/pkg/runtime/controllercontext"
)

// GateStore wraps the real active-job store so that each of its operations is
// an observable operation of the pass that performs it (a rendezvous point of
// the stepper), exactly like an API call.
type GateStore struct {
	W     *World
	Real  controllercontext.ActiveJobStore
	Gated bool
}

func (g *GateStore) Name() string { return "ActiveJobStoreGate" }

func (g *GateStore) gate(op string, rjc *execution.JobConfig) {
	if !g.Gated {
		return
	}
	if s := g.W.cur; s != nil && s.onStepped() {
		_ = s.Gate(Call{Actor: g.W.curName, Verb: "store", Resource: op, Key: rjc.Namespace + "/" + rjc.Name})
	}
}

func (g *GateStore) CountActiveJobsForConfig(rjc *execution.JobConfig) int64 {
	g.gate("count", rjc)
	n := g.Real.CountActiveJobsForConfig(rjc)
	g.W.StoreOps = append(g.W.StoreOps, fmt.Sprintf("count=%d", n))
	return n
}

func (g *GateStore) CheckAndAdd(rjc *execution.JobConfig, oldCount int64) bool {
	g.gate("cas", rjc)
	ok := g.Real.CheckAndAdd(rjc, oldCount)
	g.W.StoreOps = append(g.W.StoreOps, fmt.Sprintf("cas(%d)=%v", oldCount, ok))
	return ok
}

func (g *GateStore) Delete(rjc *execution.JobConfig) {
	g.gate("rollback", rjc)
	g.Real.Delete(rjc)
	g.W.StoreOps = append(g.W.StoreOps, "rollback")
}

// gateStores is a controllercontext.Stores that hands out the gating wrapper.
type gateStores struct {
	*controllercontext.ContextStores
	g *GateStore
}

func (s *gateStores) ActiveJobStore() (controllercontext.ActiveJobStore, error) {
	if s.g.Real == nil {
		return nil, controllercontext.ErrStoreNotRegistered
	}
	return s.g, nil
}
