package simworld

import (
	"context"
	"encoding/json"
	"fmt"

	jsonpatch "github.com/evanphx/json-patch"
	admissionv1 "k8s.io/api/admission/v1"
	kerrors "k8s.io/apimachinery/pkg/api/errors"
	metav1 "k8s.io/apimachinery/pkg/apis/meta/v1"
	"k8s.io/apimachinery/pkg/runtime"

	execution "github.com/furiko-io/furiko/apis/execution/v1alpha1"
	"github.com/furiko-io/furiko/pkg/execution/webhooks/jobconfigmutatingwebhook"
	"github.com/furiko-io/furiko/pkg/execution/webhooks/jobconfigvalidatingwebhook"
	"github.com/furiko-io/furiko/pkg/execution/webhooks/jobmutatingwebhook"
	"github.com/furiko-io/furiko/pkg/execution/webhooks/jobvalidatingwebhook"
	"github.com/furiko-io/furiko/pkg/runtime/controllercontext"
)

type handler interface {
	Handle(ctx context.Context, req *admissionv1.AdmissionRequest) (*admissionv1.AdmissionResponse, error)
}

// Admission runs every create/update of a Job or JobConfig through furiko's
// real mutating webhook (the returned JSON patch is applied with the library
// the API server uses) and then through the real validating webhook.
type Admission struct {
	mut, val map[string]handler
	// Rejected counts requests that admission refused, by resource and operation.
	Rejected map[string]int
}

// NewAdmission builds the four webhooks on the given context (their caches are that context's informers).
func NewAdmission(c controllercontext.Context) (*Admission, error) {
	jm, err := jobmutatingwebhook.NewWebhook(c)
	if err != nil {
		return nil, err
	}
	jcm, err := jobconfigmutatingwebhook.NewWebhook(c)
	if err != nil {
		return nil, err
	}
	jv, err := jobvalidatingwebhook.NewWebhook(c)
	if err != nil {
		return nil, err
	}
	jcv, err := jobconfigvalidatingwebhook.NewWebhook(c)
	if err != nil {
		return nil, err
	}
	return &Admission{mut: map[string]handler{"jobs": jm, "jobconfigs": jcm}, val: map[string]handler{"jobs": jv, "jobconfigs": jcv},
		Rejected: map[string]int{}}, nil
}

var kinds = map[string]string{"jobs": "Job", "jobconfigs": "JobConfig"}

// Raw is Admit on raw JSON: it returns the patched object's JSON, the patch, and the admission error if any.
func (a *Admission) Raw(res, op string, oldRaw, newRaw []byte) (out, patch []byte, err error) {
	kind, ok := kinds[res]
	if !ok {
		return newRaw, nil, nil
	}
	req := &admissionv1.AdmissionRequest{
		Operation: admissionv1.Operation(op),
		Kind:      metav1.GroupVersionKind{Group: execution.GroupVersion.Group, Version: execution.GroupVersion.Version, Kind: kind},
		Resource:  metav1.GroupVersionResource{Group: execution.GroupVersion.Group, Version: execution.GroupVersion.Version, Resource: res},
		Object:    runtime.RawExtension{Raw: newRaw},
	}
	if oldRaw != nil {
		req.OldObject = runtime.RawExtension{Raw: oldRaw}
	}
	resp, herr := a.mut[res].Handle(context.Background(), req)
	if herr != nil || resp == nil || !resp.Allowed {
		return nil, nil, a.refused(res, op, kind, resp, herr)
	}
	out = newRaw
	if len(resp.Patch) > 0 {
		p, perr := jsonpatch.DecodePatch(resp.Patch)
		if perr != nil {
			return nil, resp.Patch, fmt.Errorf("mutating webhook returned an undecodable patch: %v", perr)
		}
		out, perr = p.Apply(newRaw)
		if perr != nil {
			return nil, resp.Patch, fmt.Errorf("mutating webhook patch does not apply to the submitted object: %v", perr)
		}
	}
	req.Object = runtime.RawExtension{Raw: out}
	vresp, verr := a.val[res].Handle(context.Background(), req)
	if verr != nil || vresp == nil || !vresp.Allowed {
		return nil, resp.Patch, a.refused(res, op, kind, vresp, verr)
	}
	return out, resp.Patch, nil
}

func (a *Admission) refused(res, op, kind string, resp *admissionv1.AdmissionResponse, herr error) error {
	a.Rejected[res+"/"+op]++
	msg := "admission webhook denied the request"
	if herr != nil {
		msg = herr.Error()
	} else if resp != nil && resp.Result != nil {
		msg = resp.Result.Message
	}
	return kerrors.NewBadRequest(fmt.Sprintf("admission refused %s of %s: %s", op, kind, msg))
}

// Admit implements simworld.Admit on typed objects.
func (a *Admission) Admit(res, op string, old, new runtime.Object) (runtime.Object, error) {
	if _, ok := kinds[res]; !ok {
		return new, nil
	}
	newRaw, err := json.Marshal(new)
	if err != nil {
		return nil, err
	}
	var oldRaw []byte
	if old != nil {
		if oldRaw, err = json.Marshal(old); err != nil {
			return nil, err
		}
	}
	out, _, err := a.Raw(res, op, oldRaw, newRaw)
	if err != nil {
		return nil, err
	}
	var obj runtime.Object
	if res == "jobs" {
		obj = &execution.Job{}
	} else {
		obj = &execution.JobConfig{}
	}
	if err := json.Unmarshal(out, obj); err != nil {
		return nil, err
	}
	return obj, nil
}
