// Package simworld is a deterministic, single-threaded simulation of the
// cluster around furiko's controllers: an authoritative API store with the
// API-server semantics the properties depend on, synchronous informers,
// deterministic work-queues, a goroutine stepper and fault/crash injection.
// See /verif/DESIGN.md section 3.2.
package simworld

import (
	"encoding/json"
	"fmt"
	"sort"
	"strconv"
	"sync"

	corev1 "k8s.io/api/core/v1"
	kerrors "k8s.io/apimachinery/pkg/api/errors"
	"k8s.io/apimachinery/pkg/api/meta"
	metav1 "k8s.io/apimachinery/pkg/apis/meta/v1"
	"k8s.io/apimachinery/pkg/runtime"
	"k8s.io/apimachinery/pkg/runtime/schema"
	"k8s.io/apimachinery/pkg/types"
	ktesting "k8s.io/client-go/testing"
	"k8s.io/utils/clock"

	execution "github.com/furiko-io/furiko/apis/execution/v1alpha1"
)

// Event is one entry of a resource's watch log.
type Event struct {
	Type string // add | update | delete
	Old  runtime.Object
	New  runtime.Object
}

// Call is one API call as seen at its linearization point.
type Call struct {
	Seq      int
	Actor    string
	Verb     string
	Resource string
	Sub      string
	Key      string // ns/name
	Err      string // "" | reason | "applied-but-error"
	Force    bool
	Noop     bool // update that changed nothing (no write, no event)
}

func (c Call) Op() string {
	s := c.Verb + "/" + c.Resource
	if c.Sub != "" {
		s += "/" + c.Sub
	}
	return s
}

// AppliedErr is returned by a gate to request an "applied-but-error" fault:
// the call takes effect and the caller receives Err.
type AppliedErr struct{ Err error }

func (e AppliedErr) Error() string { return "applied-but-error: " + e.Err.Error() }

// Gate is consulted before every mutating API call of an actor; a non-nil
// result injects a fault (see AppliedErr).
type Gate func(c Call) error

// Admit is the admission chain (mutating then validating webhooks).
type Admit func(res, op string, old, new runtime.Object) (runtime.Object, error)

// API is the authoritative object store.
type API struct {
	mu    sync.Mutex
	Clock clock.PassiveClock
	objs  map[string]map[string]runtime.Object // resource -> ns/name -> obj
	logs  map[string][]Event                   // resource -> watch log
	rv    int
	uid   int
	seq   int
	Calls []Call
	gates map[string]Gate
	// FailPodDeletes makes the next n Pod deletes issued by a stepped controller fail (they are not gated, so this is
	// how a fault reaches them)
	FailPodDeletes int
	dead           map[string]bool
	Admit          Admit
	OnCall         func(c Call)
	// Pod deletes issued by a stepped controller are not gated (ConcurrentTasks issues them from several
	// goroutines in scheduler order). To keep runs reproducible their effect is deferred to the end of the
	// segment, where FlushPodDeletes applies them in name order; the caller gets the outcome at once (it only
	// depends on that Pod).
	pendingDel map[string][]Call
}

func NewAPI(c clock.PassiveClock) *API {
	return &API{Clock: c, objs: map[string]map[string]runtime.Object{}, logs: map[string][]Event{}, gates: map[string]Gate{}, dead: map[string]bool{}, pendingDel: map[string][]Call{}}
}

func key(ns, name string) string { return ns + "/" + name }

func (a *API) table(res string) map[string]runtime.Object {
	t, ok := a.objs[res]
	if !ok {
		t = map[string]runtime.Object{}
		a.objs[res] = t
	}
	return t
}

// SetGate arms (g != nil) or disarms the gate of an actor.
func (a *API) SetGate(actor string, g Gate) {
	a.mu.Lock()
	defer a.mu.Unlock()
	if g == nil {
		delete(a.gates, actor)
	} else {
		a.gates[actor] = g
	}
}

// Kill makes every further call of the actor fail without effect (crashed process).
func (a *API) Kill(actor string) { a.mu.Lock(); a.dead[actor] = true; a.mu.Unlock() }

// Log returns the watch log of a resource.
func (a *API) Log(res string) []Event { a.mu.Lock(); defer a.mu.Unlock(); return a.logs[res] }

// Get returns a copy of the authoritative object or nil.
func (a *API) Get(res, ns, name string) runtime.Object {
	a.mu.Lock()
	defer a.mu.Unlock()
	o := a.table(res)[key(ns, name)]
	if o == nil {
		return nil
	}
	return o.DeepCopyObject()
}

// List returns copies of all objects of a resource, sorted by key.
func (a *API) List(res string) []runtime.Object {
	a.mu.Lock()
	defer a.mu.Unlock()
	keys := make([]string, 0, len(a.table(res)))
	for k := range a.table(res) {
		keys = append(keys, k)
	}
	sort.Strings(keys)
	out := make([]runtime.Object, 0, len(keys))
	for _, k := range keys {
		out = append(out, a.table(res)[k].DeepCopyObject())
	}
	return out
}

func gr(res string) schema.GroupResource {
	switch res {
	case "pods", "configmaps", "secrets":
		return schema.GroupResource{Resource: res}
	}
	return schema.GroupResource{Group: "execution.furiko.io", Resource: res}
}

func (a *API) emit(res, typ string, old, new runtime.Object) {
	a.logs[res] = append(a.logs[res], Event{Type: typ, Old: old, New: new})
}

func (a *API) nextRV() string { a.rv++; return strconv.Itoa(a.rv) }

// ReactorFor returns a catch-all reactor bound to an actor name.
func (a *API) ReactorFor(actor string) ktesting.ReactionFunc {
	return func(action ktesting.Action) (bool, runtime.Object, error) { return a.react(actor, action) }
}

func actionKey(action ktesting.Action) string {
	if n, ok := action.(interface{ GetName() string }); ok {
		return key(action.GetNamespace(), n.GetName())
	}
	if o, ok := action.(interface{ GetObject() runtime.Object }); ok {
		if m, err := meta.Accessor(o.GetObject()); err == nil {
			return key(action.GetNamespace(), m.GetName())
		}
	}
	return ""
}

func (a *API) react(actor string, action ktesting.Action) (bool, runtime.Object, error) {
	verb := action.GetVerb()
	res := action.GetResource().Resource
	if res == "events" {
		return true, nil, nil
	}
	mutating := verb == "create" || verb == "update" || verb == "delete"
	a.mu.Lock()
	dead := a.dead[actor]
	g := a.gates[actor]
	a.mu.Unlock()
	if dead && mutating {
		return true, nil, kerrors.NewServiceUnavailable("process crashed")
	}
	var injected error
	applied := false
	// Gate first, outside the lock: the caller is parked here until the harness
	// lets it proceed. Pod deletes are not gated: ConcurrentTasks issues them from
	// several goroutines; the harness merges them into the enclosing segment.
	if g != nil && mutating && !(verb == "delete" && res == "pods") {
		pre := Call{Actor: actor, Verb: verb, Resource: res, Sub: action.GetSubresource(), Key: actionKey(action)}
		if d, ok := action.(ktesting.DeleteActionImpl); ok && d.DeleteOptions.GracePeriodSeconds != nil && *d.DeleteOptions.GracePeriodSeconds == 0 {
			pre.Force = true
		}
		if err := g(pre); err != nil {
			if ae, ok := err.(AppliedErr); ok {
				applied, injected = true, ae.Err
			} else {
				injected = err
			}
		}
		a.mu.Lock()
		dead = a.dead[actor]
		a.mu.Unlock()
		if dead {
			return true, nil, kerrors.NewServiceUnavailable("process crashed")
		}
	}
	a.mu.Lock()
	defer a.mu.Unlock()
	if verb == "delete" && res == "pods" && g != nil && a.FailPodDeletes > 0 {
		a.FailPodDeletes--
		injected = kerrors.NewInternalError(fmt.Errorf("injected fault"))
	}
	ns := action.GetNamespace()
	call := Call{Actor: actor, Verb: verb, Resource: res, Sub: action.GetSubresource()}
	finish := func(obj runtime.Object, err error) (bool, runtime.Object, error) {
		a.seq++
		call.Seq = a.seq
		if err != nil {
			call.Err = string(kerrors.ReasonForError(err))
			if call.Err == "" {
				call.Err = "error"
			}
		} else if applied {
			obj, err = nil, injected
			call.Err = "applied-but-error"
		}
		a.Calls = append(a.Calls, call)
		if a.OnCall != nil {
			a.OnCall(call)
		}
		return true, obj, err
	}
	if injected != nil && !applied {
		call.Key = actionKey(action)
		return finish(nil, injected)
	}
	switch verb {
	case "create":
		act := action.(ktesting.CreateAction)
		obj := act.GetObject().DeepCopyObject()
		m, _ := meta.Accessor(obj)
		if m.GetName() == "" && m.GetGenerateName() != "" {
			a.uid++
			m.SetName(fmt.Sprintf("%s%05d", m.GetGenerateName(), a.uid))
		}
		call.Key = key(ns, m.GetName())
		if _, ok := a.table(res)[call.Key]; ok {
			return finish(nil, kerrors.NewAlreadyExists(gr(res), m.GetName()))
		}
		if a.Admit != nil {
			adm, err := a.Admit(res, "CREATE", nil, obj)
			if err != nil {
				return finish(nil, err)
			}
			obj = adm
			m, _ = meta.Accessor(obj)
		}
		a.uid++
		m.SetNamespace(ns)
		m.SetUID(types.UID(fmt.Sprintf("uid-%d", a.uid)))
		m.SetCreationTimestamp(metav1.NewTime(a.Clock.Now().Truncate(1e9)))
		m.SetResourceVersion(a.nextRV())
		m.SetDeletionTimestamp(nil)
		switch o := obj.(type) { // status subresource: dropped on create
		case *execution.Job:
			o.Status = execution.JobStatus{}
		case *execution.JobConfig:
			o.Status = execution.JobConfigStatus{}
		}
		a.table(res)[call.Key] = obj
		a.emit(res, "add", nil, obj.DeepCopyObject())
		return finish(obj.DeepCopyObject(), nil)
	case "update":
		act := action.(ktesting.UpdateAction)
		obj := act.GetObject().DeepCopyObject()
		m, _ := meta.Accessor(obj)
		call.Key = key(ns, m.GetName())
		cur, ok := a.table(res)[call.Key]
		if !ok {
			return finish(nil, kerrors.NewNotFound(gr(res), m.GetName()))
		}
		cm, _ := meta.Accessor(cur)
		if m.GetResourceVersion() != "" && m.GetResourceVersion() != cm.GetResourceVersion() {
			return finish(nil, kerrors.NewConflict(gr(res), m.GetName(), fmt.Errorf("the object has been modified; please apply your changes to the latest version and try again")))
		}
		next := mergeUpdate(cur, obj, act.GetSubresource())
		if a.Admit != nil && act.GetSubresource() == "" {
			adm, err := a.Admit(res, "UPDATE", cur.DeepCopyObject(), next)
			if err != nil {
				return finish(nil, err)
			}
			next = mergeUpdate(cur, adm, "")
		}
		nm, _ := meta.Accessor(next)
		nm.SetResourceVersion(cm.GetResourceVersion())
		if sameJSON(cur, next) { // no-op update: the API server does not write
			call.Noop = true
			return finish(cur.DeepCopyObject(), nil)
		}
		nm.SetResourceVersion(a.nextRV())
		// finalizer-aware removal
		if nm.GetDeletionTimestamp() != nil && len(nm.GetFinalizers()) == 0 {
			delete(a.table(res), call.Key)
			a.emit(res, "delete", cur.DeepCopyObject(), next.DeepCopyObject())
			return finish(next.DeepCopyObject(), nil)
		}
		a.table(res)[call.Key] = next
		a.emit(res, "update", cur.DeepCopyObject(), next.DeepCopyObject())
		return finish(next.DeepCopyObject(), nil)
	case "delete":
		act := action.(ktesting.DeleteAction)
		call.Key = key(ns, act.GetName())
		cur, ok := a.table(res)[call.Key]
		if !ok {
			return finish(nil, kerrors.NewNotFound(gr(res), act.GetName()))
		}
		cm, _ := meta.Accessor(cur)
		force := false
		if d, ok := action.(ktesting.DeleteActionImpl); ok && d.DeleteOptions.GracePeriodSeconds != nil && *d.DeleteOptions.GracePeriodSeconds == 0 {
			force = true
		}
		call.Force = force
		if res == "pods" && g != nil {
			for _, pc := range a.pendingDel[actor] {
				if pc.Key == call.Key && pc.Force {
					return true, nil, kerrors.NewNotFound(gr(res), act.GetName())
				}
			}
			a.pendingDel[actor] = append(a.pendingDel[actor], call)
			return true, nil, nil
		}
		graceful := res == "pods" && !force
		if len(cm.GetFinalizers()) > 0 || graceful {
			if cm.GetDeletionTimestamp() == nil {
				next := cur.DeepCopyObject()
				nm, _ := meta.Accessor(next)
				now := metav1.NewTime(a.Clock.Now().Truncate(1e9))
				nm.SetDeletionTimestamp(&now)
				nm.SetResourceVersion(a.nextRV())
				a.table(res)[call.Key] = next
				a.emit(res, "update", cur.DeepCopyObject(), next.DeepCopyObject())
			}
			return finish(nil, nil)
		}
		delete(a.table(res), call.Key)
		a.emit(res, "delete", cur.DeepCopyObject(), cur.DeepCopyObject())
		return finish(nil, nil)
	case "get":
		act := action.(ktesting.GetAction)
		cur, ok := a.table(res)[key(ns, act.GetName())]
		if !ok {
			return true, nil, kerrors.NewNotFound(gr(res), act.GetName())
		}
		return true, cur.DeepCopyObject(), nil
	}
	return false, nil, nil
}

// FlushPodDeletes applies the deferred Pod deletes of a stepped actor in name order.
func (a *API) FlushPodDeletes(actor string) {
	a.mu.Lock()
	defer a.mu.Unlock()
	pend := a.pendingDel[actor]
	delete(a.pendingDel, actor)
	sort.SliceStable(pend, func(i, j int) bool { return pend[i].Key < pend[j].Key })
	for _, call := range pend {
		cur, ok := a.table("pods")[call.Key]
		if ok {
			cm, _ := meta.Accessor(cur)
			if !call.Force {
				if cm.GetDeletionTimestamp() == nil {
					next := cur.DeepCopyObject()
					nm, _ := meta.Accessor(next)
					now := metav1.NewTime(a.Clock.Now().Truncate(1e9))
					nm.SetDeletionTimestamp(&now)
					nm.SetResourceVersion(a.nextRV())
					a.table("pods")[call.Key] = next
					a.emit("pods", "update", cur.DeepCopyObject(), next.DeepCopyObject())
				}
			} else {
				delete(a.table("pods"), call.Key)
				a.emit("pods", "delete", cur.DeepCopyObject(), cur.DeepCopyObject())
			}
		}
		a.seq++
		call.Seq = a.seq
		a.Calls = append(a.Calls, call)
		if a.OnCall != nil {
			a.OnCall(call)
		}
	}
}

// Direct performs an action on behalf of an environment actor (user, kubelet,
// neighbouring controller): same semantics as a client call, but it bypasses
// the fake clientsets (whose Invokes holds the clientset lock for the whole
// reaction, i.e. also while a controller's call is parked at a gate) and is
// never gated.
func (a *API) Direct(actor string, action ktesting.Action) (runtime.Object, error) {
	_, obj, err := a.react("env:"+actor, action)
	return obj, err
}

var (
	JobsGVR       = schema.GroupVersionResource{Group: "execution.furiko.io", Version: "v1alpha1", Resource: "jobs"}
	JobConfigsGVR = schema.GroupVersionResource{Group: "execution.furiko.io", Version: "v1alpha1", Resource: "jobconfigs"}
	PodsGVR       = schema.GroupVersionResource{Version: "v1", Resource: "pods"}
)

// mergeUpdate applies status-subresource separation and keeps server-owned metadata.
func mergeUpdate(cur, upd runtime.Object, sub string) runtime.Object {
	switch u := upd.(type) {
	case *execution.Job:
		c := cur.(*execution.Job)
		if sub == "status" {
			n := c.DeepCopy()
			n.Status = u.Status
			return n
		}
		n := u.DeepCopy()
		n.Status = c.Status
		n.UID, n.CreationTimestamp, n.DeletionTimestamp = c.UID, c.CreationTimestamp, c.DeletionTimestamp
		return n
	case *execution.JobConfig:
		c := cur.(*execution.JobConfig)
		if sub == "status" {
			n := c.DeepCopy()
			n.Status = u.Status
			return n
		}
		n := u.DeepCopy()
		n.Status = c.Status
		n.UID, n.CreationTimestamp, n.DeletionTimestamp = c.UID, c.CreationTimestamp, c.DeletionTimestamp
		return n
	case *corev1.Pod:
		c := cur.(*corev1.Pod)
		n := u.DeepCopy()
		n.UID, n.CreationTimestamp, n.DeletionTimestamp = c.UID, c.CreationTimestamp, c.DeletionTimestamp
		return n
	}
	return upd
}

// Mutate is the environment's raw write (kubelet status, neighbouring
// controller's status write): f receives a copy; returning nil removes the
// object. No admission, no conflict check, never gated. Emits a watch event
// unless nothing changed.
func (a *API) Mutate(res, ns, name string, f func(obj runtime.Object) runtime.Object) bool {
	a.mu.Lock()
	defer a.mu.Unlock()
	k := key(ns, name)
	cur, ok := a.table(res)[k]
	if !ok {
		return false
	}
	next := f(cur.DeepCopyObject())
	if next == nil {
		delete(a.table(res), k)
		a.emit(res, "delete", cur.DeepCopyObject(), cur.DeepCopyObject())
		return true
	}
	if sameJSON(cur, next) {
		return false
	}
	nm, _ := meta.Accessor(next)
	nm.SetResourceVersion(a.nextRV())
	if nm.GetDeletionTimestamp() != nil && len(nm.GetFinalizers()) == 0 && res != "pods" {
		delete(a.table(res), k)
		a.emit(res, "delete", cur.DeepCopyObject(), next.DeepCopyObject())
		return true
	}
	a.table(res)[k] = next
	a.emit(res, "update", cur.DeepCopyObject(), next.DeepCopyObject())
	return true
}

// GC removes (one step) an object whose controller owner no longer exists;
// returns the removed key or "".
func (a *API) GC() string {
	a.mu.Lock()
	defer a.mu.Unlock()
	uids := map[types.UID]bool{}
	for _, t := range a.objs {
		for _, o := range t {
			m, _ := meta.Accessor(o)
			uids[m.GetUID()] = true
		}
	}
	for _, res := range []string{"jobs", "pods"} {
		keys := make([]string, 0)
		for k := range a.table(res) {
			keys = append(keys, k)
		}
		sort.Strings(keys)
		for _, k := range keys {
			o := a.table(res)[k]
			m, _ := meta.Accessor(o)
			ref := metav1.GetControllerOf(m.(metav1.Object))
			if ref == nil || uids[ref.UID] {
				continue
			}
			if len(m.GetFinalizers()) > 0 {
				if m.GetDeletionTimestamp() == nil {
					next := o.DeepCopyObject()
					nm, _ := meta.Accessor(next)
					now := metav1.NewTime(a.Clock.Now().Truncate(1e9))
					nm.SetDeletionTimestamp(&now)
					nm.SetResourceVersion(a.nextRV())
					a.table(res)[k] = next
					a.emit(res, "update", o.DeepCopyObject(), next.DeepCopyObject())
					return res + ":" + k
				}
				continue
			}
			delete(a.table(res), k)
			a.emit(res, "delete", o.DeepCopyObject(), o.DeepCopyObject())
			return res + ":" + k
		}
	}
	return ""
}

func sameJSON(a, b runtime.Object) bool {
	x, _ := json.Marshal(a)
	y, _ := json.Marshal(b)
	return string(x) == string(y)
}
