package simworld

import (
	"context"
	"encoding/json"
	"io"
	"sort"
	"time"

	"k8s.io/apimachinery/pkg/runtime"
	fakeclock "k8s.io/utils/clock/testing"

	"github.com/furiko-io/furiko/pkg/runtime/controllercontext"
	"github.com/furiko-io/furiko/pkg/runtime/controllercontext/mock"
)

// Base is the epoch of the simulated clock; tick n of a spec is Base+n seconds.
const Base = int64(1700000000)

// World is one controller process (shared informers, configs, stores) around a SimAPI.
type World struct {
	Clk    *fakeclock.FakeClock
	API    *API
	Inf    *Informers
	Cfg    *mock.Configs
	Stores *controllercontext.ContextStores
	Procs  map[string]*Proc
	// Store is the gating wrapper around the real active-job store (Real is set by the driver).
	Store    *GateStore
	StoreOps []string // log of store operations with their results
	gen      string   // process generation (actor names of a crashed process stay dead)
	cur      *Stepper // stepper of the pass that is currently running (exactly one goroutine runs at a time)
	curName  string
}

// Proc is one controller inside the process: own fake clientsets (all backed by
// the one SimAPI), its queues and at most one reconcile pass in flight.
type Proc struct {
	Name   string
	W      *World
	CS     *mock.Clientsets
	Queues map[string]*Queue
	Work   map[string]func(ctx context.Context) bool // queue name -> run one work() iteration
	Stp    *Stepper
	Hung   bool   // a pass of this process blocked for good (see Stepper.Hung)
	StpQ   string // queue the in-flight pass was taken from
	StpKey string
}

func NewWorld(start time.Time) *World {
	clk := fakeclock.NewFakeClock(start)
	api := NewAPI(clk)
	cfg := mock.NewConfigs()
	_ = cfg.Start(context.Background())
	w := &World{Clk: clk, API: api, Cfg: cfg, Stores: controllercontext.NewContextStores(), Procs: map[string]*Proc{}}
	shared := w.newClientsets("informers")
	w.Inf = NewInformers(api, shared)
	w.Store = &GateStore{W: w}
	return w
}

func (w *World) newClientsets(actor string) *mock.Clientsets {
	cs := mock.NewClientsets()
	cs.FurikoMock().PrependReactor("*", "*", w.API.ReactorFor(actor))
	cs.KubernetesMock().PrependReactor("*", "*", w.API.ReactorFor(actor))
	return cs
}

// Proc returns (creating it on first use) the controller named name.
func (w *World) Proc(name string) *Proc {
	if p, ok := w.Procs[name]; ok {
		return p
	}
	p := &Proc{Name: name + w.gen, W: w, CS: w.newClientsets(name + w.gen), Queues: map[string]*Queue{}, Work: map[string]func(ctx context.Context) bool{}}
	w.Procs[name] = p
	return p
}

// Now returns the clock in ticks.
func (w *World) Now() int { return int(w.Clk.Now().Unix() - Base) }

// ---- controllercontext.Context view of a Proc ----

type procContext struct{ p *Proc }

// Context returns the controllercontext.Context a controller is constructed with.
func (p *Proc) Context() controllercontext.Context { return &procContext{p} }

func (c *procContext) Start(ctx context.Context) error          { return nil }
func (c *procContext) Clientsets() controllercontext.Clientsets { return c.p.CS }
func (c *procContext) Configs() controllercontext.Configs       { return c.p.W.Cfg }
func (c *procContext) Stores() controllercontext.Stores {
	return &gateStores{ContextStores: c.p.W.Stores, g: c.p.W.Store}
}
func (c *procContext) Informers() controllercontext.Informers { return c.p.W.Inf }

// ---- stepping a reconcile pass at the granularity of observable operations ----

// Seg describes one executed segment of a pass: the gated call that was
// released (nil for the first segment), the ungated Pod deletes issued during
// the segment, and the call the pass is now parked on (nil: pass ended).
type Seg struct {
	Done  *Call
	Dels  []string // graceful Pod deletes that took effect
	FDels []string // forced (grace period 0) Pod deletes that took effect
	Force bool
	Next  *Call
}

func (p *Proc) collect(n0 int, pend *Call) Seg {
	var s Seg
	p.W.API.FlushPodDeletes(p.Name)
	for _, c := range p.W.API.Calls[n0:] {
		if c.Actor != p.Name {
			continue
		}
		if c.Verb == "delete" && c.Resource == "pods" {
			if c.Err == "" {
				if c.Force {
					s.Force = true
					s.FDels = append(s.FDels, c.Key)
				} else {
					s.Dels = append(s.Dels, c.Key)
				}
			}
			continue
		}
		if pend != nil && pend.Verb != "store" && s.Done == nil && c.Verb == pend.Verb && c.Resource == pend.Resource {
			cc := c
			s.Done = &cc
		}
	}
	if pend != nil && s.Done == nil {
		cc := *pend
		s.Done = &cc
	}
	if p.Stp != nil {
		s.Next = p.Stp.Pending()
	}
	return s
}

// SyncBegin takes key k from queue qn and runs the pass up to its first gated
// API call.
func (p *Proc) SyncBegin(qn, k string) Seg {
	n0 := len(p.W.API.Calls)
	q := p.Queues[qn]
	q.Pick = k
	p.Stp = NewStepper()
	p.StpQ, p.StpKey = qn, k
	p.W.API.SetGate(p.Name, p.Stp.Gate)
	work := p.Work[qn]
	p.W.cur, p.W.curName = p.Stp, p.Name
	more := p.Stp.Begin(func() { work(context.Background()) })
	p.W.cur = nil
	p.W.API.SetGate(p.Name, nil)
	q.Pick = ""
	if !more {
		p.Hung = p.Hung || p.Stp.Hung
		p.Stp = nil
	}
	return p.collect(n0, nil)
}

// Step releases the pending API call (fault: nil, an error, or AppliedErr) and
// runs to the next gated call or to the end of the pass.
func (p *Proc) Step(fault error) Seg {
	n0 := len(p.W.API.Calls)
	pend := *p.Stp.Pending()
	p.W.API.SetGate(p.Name, p.Stp.Gate)
	p.W.cur, p.W.curName = p.Stp, p.Name
	more := p.Stp.Step(fault)
	p.W.cur = nil
	p.W.API.SetGate(p.Name, nil)
	if !more {
		p.Hung = p.Hung || p.Stp.Hung
		p.Stp = nil
	}
	return p.collect(n0, &pend)
}

// Crash kills the process: every controller's further calls fail without
// effect, in-flight passes are released and run to their end on discarded
// state. The caller rebuilds a new World around the same API.
func (w *World) Crash() {
	for _, p := range w.Procs {
		w.API.Kill(p.Name)
	}
	for _, p := range w.Procs {
		for p.Stp != nil {
			p.Step(nil)
		}
	}
}

// Rebirth returns a fresh process (new informers relisted by the caller, new
// stores, new procs) around the same API, clock and configs.
func (w *World) Rebirth(gen string) *World {
	n := &World{Clk: w.Clk, API: w.API, Cfg: w.Cfg, Stores: controllercontext.NewContextStores(), Procs: map[string]*Proc{}, gen: "#" + gen}
	shared := n.newClientsets("informers" + gen)
	n.Inf = NewInformers(w.API, shared)
	n.Store = &GateStore{W: n, Gated: w.Store.Gated}
	return n
}

// ---- trace writer ----

type Tracer struct {
	enc   *json.Encoder
	Lines int
}

func NewTracer(w io.Writer) *Tracer { return &Tracer{enc: json.NewEncoder(w)} }

func (t *Tracer) Emit(line interface{}) {
	if err := t.enc.Encode(line); err != nil {
		panic(err)
	}
	t.Lines++
}

// Tk converts a time to ticks (0 = unset; Base itself maps to 0 too, so runs start at tick >= 1).
func Tk(t time.Time) int {
	if t.IsZero() {
		return 0
	}
	return int(t.Unix() - Base)
}

// SortedKeys returns the sorted keys of a string-keyed bool/duration map.
func SortedKeys[V any](m map[string]V) []string {
	out := make([]string, 0, len(m))
	for k := range m {
		out = append(out, k)
	}
	sort.Strings(out)
	return out
}

// CacheGet returns the cached object for ns/name or nil.
func CacheGet(i *Informer, k string) runtime.Object {
	o, ok, _ := i.GetIndexer().GetByKey(k)
	if !ok {
		return nil
	}
	return o.(runtime.Object)
}
