package simworld

import (
	"context"
	"sort"
	"time"

	apiequality "k8s.io/apimachinery/pkg/api/equality"
	"k8s.io/apimachinery/pkg/runtime"
	kubeinformers "k8s.io/client-go/informers"
	coreinformers "k8s.io/client-go/informers/core"
	corev1informers "k8s.io/client-go/informers/core/v1"
	corev1listers "k8s.io/client-go/listers/core/v1"
	"k8s.io/client-go/tools/cache"

	furikoinformers "github.com/furiko-io/furiko/pkg/generated/informers/externalversions"
	execinformers "github.com/furiko-io/furiko/pkg/generated/informers/externalversions/execution"
	execv1informers "github.com/furiko-io/furiko/pkg/generated/informers/externalversions/execution/v1alpha1"
	execlisters "github.com/furiko-io/furiko/pkg/generated/listers/execution/v1alpha1"
	"github.com/furiko-io/furiko/pkg/runtime/controllercontext"
)

// Informer is a synchronous cache.SharedIndexInformer: the harness decides when
// the next watch event is applied to the indexer and handed to the handlers.
type Informer struct {
	api      *API
	res      string
	indexer  cache.Indexer
	handlers []cache.ResourceEventHandler
	next     int // index of next undelivered event in the API's watch log
	// Lag[i] = true: handler i does not see events at Deliver time; they queue up in backlog[i].
	Lag     map[int]bool
	backlog map[int][]Event
	// snap holds a private deep copy of every object at the moment it entered the cache: the cache mutation detector
	// (objects in an informer cache are shared between all workers and must never be written to).
	snap map[string]runtime.Object
}

func NewInformer(api *API, res string) *Informer {
	return &Informer{api: api, res: res, Lag: map[int]bool{}, backlog: map[int][]Event{}, snap: map[string]runtime.Object{},
		indexer: cache.NewIndexer(cache.MetaNamespaceKeyFunc, cache.Indexers{cache.NamespaceIndex: cache.MetaNamespaceIndexFunc})}
}

func (i *Informer) AddEventHandler(h cache.ResourceEventHandler) { i.handlers = append(i.handlers, h) }
func (i *Informer) AddEventHandlerWithResyncPeriod(h cache.ResourceEventHandler, _ time.Duration) {
	i.AddEventHandler(h)
}
func (i *Informer) GetStore() cache.Store                              { return i.indexer }
func (i *Informer) GetController() cache.Controller                    { return nil }
func (i *Informer) Run(stopCh <-chan struct{})                         {}
func (i *Informer) HasSynced() bool                                    { return true }
func (i *Informer) LastSyncResourceVersion() string                    { return "" }
func (i *Informer) SetWatchErrorHandler(cache.WatchErrorHandler) error { return nil }
func (i *Informer) AddIndexers(ix cache.Indexers) error                { return i.indexer.AddIndexers(ix) }
func (i *Informer) GetIndexer() cache.Indexer                          { return i.indexer }

// Pending returns the number of undelivered events.
func (i *Informer) Pending() int { return len(i.api.Log(i.res)) - i.next }

// Deliver applies the oldest undelivered event and calls all handlers.
func (i *Informer) Deliver() bool {
	log := i.api.Log(i.res)
	if i.next >= len(log) {
		return false
	}
	e := log[i.next]
	i.next++
	k, _ := cache.MetaNamespaceKeyFunc(e.New)
	switch e.Type {
	case "add":
		_ = i.indexer.Add(e.New)
		i.snap[k] = e.New.DeepCopyObject()
	case "update":
		_ = i.indexer.Update(e.New)
		i.snap[k] = e.New.DeepCopyObject()
	case "delete":
		_ = i.indexer.Delete(e.New)
		delete(i.snap, k)
	}
	for idx, h := range i.handlers {
		if i.Lag[idx] {
			i.backlog[idx] = append(i.backlog[idx], e)
			continue
		}
		notify(h, e)
	}
	return true
}

func notify(h cache.ResourceEventHandler, e Event) {
	switch e.Type {
	case "add":
		h.OnAdd(e.New)
	case "update":
		h.OnUpdate(e.Old, e.New)
	case "delete":
		h.OnDelete(e.New)
	}
}

// Mutated returns the keys of cached objects that no longer equal the copy taken when they entered the cache.
func (i *Informer) Mutated() []string {
	out := []string{}
	for _, k := range i.indexer.ListKeys() {
		o, ok, _ := i.indexer.GetByKey(k)
		if !ok {
			continue
		}
		if s, ok := i.snap[k]; ok && !apiequality.Semantic.DeepEqual(o, s) {
			out = append(out, i.res+":"+k)
		}
	}
	sort.Strings(out)
	return out
}

// Backlog returns the number of events a lagging handler has not handled yet.
func (i *Informer) Backlog(idx int) int { return len(i.backlog[idx]) }

// NumHandlers returns the number of registered handlers.
func (i *Informer) NumHandlers() int { return len(i.handlers) }

// DeliverLagged hands the oldest backlogged event to handler idx.
func (i *Informer) DeliverLagged(idx int) bool {
	b := i.backlog[idx]
	if len(b) == 0 {
		return false
	}
	i.backlog[idx] = b[1:]
	notify(i.handlers[idx], b[0])
	return true
}

// Relist makes the cache equal to the API state without calling handlers' update
// paths (controller restart: handlers see Adds for everything).
func (i *Informer) Relist(objs []runtime.Object) {
	for _, o := range i.indexer.List() {
		_ = i.indexer.Delete(o)
	}
	i.snap = map[string]runtime.Object{}
	for _, o := range objs {
		_ = i.indexer.Add(o)
		if k, err := cache.MetaNamespaceKeyFunc(o); err == nil {
			i.snap[k] = o.DeepCopyObject()
		}
		for _, h := range i.handlers {
			h.OnAdd(o)
		}
	}
	i.next = len(i.api.Log(i.res))
}

// Resync models a broken watch in a running informer: the undelivered events are lost, the informer lists again
// and its handlers see the difference as client-go's Replace does - an add for every unknown object, an update for
// every known one (whether it changed or not), and a DeletedFinalStateUnknown tombstone for every object that is gone.
func (i *Informer) Resync(objs []runtime.Object) {
	seen := map[string]bool{}
	for _, o := range objs {
		k, err := cache.MetaNamespaceKeyFunc(o)
		if err != nil {
			continue
		}
		seen[k] = true
		old, ok, _ := i.indexer.GetByKey(k)
		if ok {
			_ = i.indexer.Update(o)
		} else {
			_ = i.indexer.Add(o)
		}
		i.snap[k] = o.DeepCopyObject()
		for _, h := range i.handlers {
			if ok {
				h.OnUpdate(old, o)
			} else {
				h.OnAdd(o)
			}
		}
	}
	stale := i.indexer.List()
	sort.Slice(stale, func(a, b int) bool {
		ka, _ := cache.MetaNamespaceKeyFunc(stale[a])
		kb, _ := cache.MetaNamespaceKeyFunc(stale[b])
		return ka < kb
	})
	for _, old := range stale {
		k, err := cache.MetaNamespaceKeyFunc(old)
		if err != nil || seen[k] {
			continue
		}
		_ = i.indexer.Delete(old)
		delete(i.snap, k)
		for _, h := range i.handlers {
			h.OnDelete(cache.DeletedFinalStateUnknown{Key: k, Obj: old})
		}
	}
	i.next = len(i.api.Log(i.res))
}

// ---- factories ----

type Informers struct {
	Jobs, JobConfigs, Pods *Informer
	kube                   kubeinformers.SharedInformerFactory
	furiko                 furikoinformers.SharedInformerFactory
}

func NewInformers(api *API, cs controllercontext.Clientsets) *Informers {
	return &Informers{
		Jobs: NewInformer(api, "jobs"), JobConfigs: NewInformer(api, "jobconfigs"), Pods: NewInformer(api, "pods"),
		kube:   kubeinformers.NewSharedInformerFactory(cs.Kubernetes(), 0),
		furiko: furikoinformers.NewSharedInformerFactory(cs.Furiko(), 0),
	}
}

func (s *Informers) Start(ctx context.Context) error { return nil }
func (s *Informers) Kubernetes() kubeinformers.SharedInformerFactory {
	return &kubeFactory{SharedInformerFactory: s.kube, s: s}
}
func (s *Informers) Furiko() furikoinformers.SharedInformerFactory {
	return &furikoFactory{SharedInformerFactory: s.furiko, s: s}
}

type furikoFactory struct {
	furikoinformers.SharedInformerFactory
	s *Informers
}

func (f *furikoFactory) Start(stopCh <-chan struct{})       {}
func (f *furikoFactory) Execution() execinformers.Interface { return &execGroup{f.s} }

type execGroup struct{ s *Informers }

func (g *execGroup) V1alpha1() execv1informers.Interface { return &execV1{g.s} }

type execV1 struct{ s *Informers }

func (v *execV1) Jobs() execv1informers.JobInformer { return &jobInformer{v.s.Jobs} }
func (v *execV1) JobConfigs() execv1informers.JobConfigInformer {
	return &jobConfigInformer{v.s.JobConfigs}
}

type jobInformer struct{ i *Informer }

func (j *jobInformer) Informer() cache.SharedIndexInformer { return j.i }
func (j *jobInformer) Lister() execlisters.JobLister       { return execlisters.NewJobLister(j.i.indexer) }

type jobConfigInformer struct{ i *Informer }

func (j *jobConfigInformer) Informer() cache.SharedIndexInformer { return j.i }
func (j *jobConfigInformer) Lister() execlisters.JobConfigLister {
	return execlisters.NewJobConfigLister(j.i.indexer)
}

type kubeFactory struct {
	kubeinformers.SharedInformerFactory
	s *Informers
}

func (f *kubeFactory) Start(stopCh <-chan struct{}) {}
func (f *kubeFactory) Core() coreinformers.Interface {
	return &coreGroup{Interface: f.SharedInformerFactory.Core(), s: f.s}
}

type coreGroup struct {
	coreinformers.Interface
	s *Informers
}

func (g *coreGroup) V1() corev1informers.Interface {
	return &coreV1{Interface: g.Interface.V1(), s: g.s}
}

type coreV1 struct {
	corev1informers.Interface
	s *Informers
}

func (v *coreV1) Pods() corev1informers.PodInformer { return &podInformer{v.s.Pods} }

type podInformer struct{ i *Informer }

func (p *podInformer) Informer() cache.SharedIndexInformer { return p.i }
func (p *podInformer) Lister() corev1listers.PodLister {
	return corev1listers.NewPodLister(p.i.indexer)
}
