package simworld

import "time"

// Stepper runs a function on its own goroutine and lets the harness advance it
// from one observable operation (gate) to the next. Exactly one goroutine runs
// at a time: either the harness or the stepped function.
type Stepper struct {
	req      chan *gateReq
	done     chan struct{}
	cur      *gateReq
	Finished bool
	Hung     bool // the stepped function neither reached a gate nor ended within the watchdog's (real) time: it is blocked for good
}

// HangTimeout is the real time after which a segment that neither ends nor reaches an API call counts as hung.
// A segment is controller code between two API calls (microseconds); nothing in it sleeps.
var HangTimeout = 20 * time.Second

type gateReq struct {
	call   Call
	resume chan error
}

func NewStepper() *Stepper { return &Stepper{req: make(chan *gateReq), done: make(chan struct{})} }

// Begin starts fn and returns when it reaches its first gate (true) or ends (false).
func (s *Stepper) Begin(fn func()) bool {
	go func() {
		defer close(s.done)
		fn()
	}()
	return s.wait()
}

func (s *Stepper) wait() bool {
	select {
	case r := <-s.req:
		s.cur = r
		return true
	case <-s.done:
		s.cur = nil
		s.Finished = true
		return false
	case <-time.After(HangTimeout):
		s.cur = nil
		s.Finished, s.Hung = true, true
		return false
	}
}

// Pending returns the operation the function is blocked on.
func (s *Stepper) Pending() *Call {
	if s.cur == nil {
		return nil
	}
	return &s.cur.call
}

// Step lets the pending operation proceed (fault != nil: the operation fails with
// that error and has no effect) and runs to the next gate or to the end.
func (s *Stepper) Step(fault error) bool {
	r := s.cur
	s.cur = nil
	r.resume <- fault
	return s.wait()
}

// onStepped reports whether a pass is in flight on this stepper (gates are only
// meaningful while the stepped goroutine runs).
func (s *Stepper) onStepped() bool { return !s.Finished }

// Gate is called from the stepped goroutine (API reactor / store wrapper).
func (s *Stepper) Gate(c Call) error {
	r := &gateReq{call: c, resume: make(chan error)}
	s.req <- r
	return <-r.resume
}
