package simworld

import (
	"sort"
	"time"
)

// Queue is a deterministic workqueue.RateLimitingInterface.
type Queue struct {
	Name       string
	ready      []string
	dirty      map[string]bool
	processing map[string]bool
	Timers     map[string]time.Duration // AddAfter
	Retries    map[string]bool          // AddRateLimited
	requeues   map[string]int
	Pick       string // key Get() must return next ("" = FIFO head)
	shutdown   bool
}

func NewQueue(name string) *Queue {
	return &Queue{Name: name, dirty: map[string]bool{}, processing: map[string]bool{}, Timers: map[string]time.Duration{},
		Retries: map[string]bool{}, requeues: map[string]int{}}
}

func (q *Queue) Add(item interface{}) {
	k := item.(string)
	if q.dirty[k] {
		return
	}
	q.dirty[k] = true
	if q.processing[k] {
		return
	}
	q.ready = append(q.ready, k)
}
func (q *Queue) Len() int { return len(q.ready) }
func (q *Queue) Ready() []string {
	out := append([]string(nil), q.ready...)
	sort.Strings(out)
	return out
}

// Pending returns the sorted keys that are ready to be taken.
func (q *Queue) Pending() []string { return q.Ready() }

// IsReady reports whether Get could return k now.
func (q *Queue) IsReady(k string) bool {
	for _, x := range q.ready {
		if x == k {
			return true
		}
	}
	return false
}

// Has reports whether k is ready or marked dirty while being processed.
func (q *Queue) Has(k string) bool { return q.dirty[k] }

// Drop removes k from the ready set (harness-side initialisation only).
func (q *Queue) Drop(k string) {
	for i, x := range q.ready {
		if x == k {
			q.ready = append(q.ready[:i], q.ready[i+1:]...)
			delete(q.dirty, k)
			return
		}
	}
}

func (q *Queue) Get() (interface{}, bool) {
	if len(q.ready) == 0 {
		return nil, true // never block: harness only calls work() when non-empty
	}
	idx := 0
	if q.Pick != "" {
		for i, k := range q.ready {
			if k == q.Pick {
				idx = i
			}
		}
	}
	k := q.ready[idx]
	q.ready = append(q.ready[:idx], q.ready[idx+1:]...)
	q.processing[k] = true
	delete(q.dirty, k)
	return k, false
}
func (q *Queue) Done(item interface{}) {
	k := item.(string)
	delete(q.processing, k)
	if q.dirty[k] {
		q.ready = append(q.ready, k)
	}
}
func (q *Queue) ShutDown()                                  { q.shutdown = true }
func (q *Queue) ShutDownWithDrain()                         { q.shutdown = true }
func (q *Queue) ShuttingDown() bool                         { return q.shutdown }
func (q *Queue) AddAfter(item interface{}, d time.Duration) { q.Timers[item.(string)] = d }
func (q *Queue) AddRateLimited(item interface{}) {
	k := item.(string)
	q.requeues[k]++
	q.Retries[k] = true
}
func (q *Queue) Forget(item interface{})          { delete(q.requeues, item.(string)) }
func (q *Queue) NumRequeues(item interface{}) int { return q.requeues[item.(string)] }

// FireTimer / FireRetry move a delayed key to the ready set.
func (q *Queue) FireTimer(k string) {
	if _, ok := q.Timers[k]; ok {
		delete(q.Timers, k)
		q.Add(k)
	}
}
func (q *Queue) FireRetry(k string) {
	if q.Retries[k] {
		delete(q.Retries, k)
		q.Add(k)
	}
}
