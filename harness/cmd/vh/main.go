// vh drives furiko's real controllers inside the simulated world and records
// ndjson traces for TLC. Usage: vh <module> [flags]; prints a JSON summary.
package main

import (
	"bufio"
	"encoding/json"
	"flag"
	"fmt"
	"io"
	"os"

	"k8s.io/klog/v2"

	"verifharness/drivers"
)

func main() {
	if len(os.Args) < 2 {
		fmt.Fprintln(os.Stderr, "usage: vh <module> [flags]")
		os.Exit(2)
	}
	// silence klog (controllers log errors for injected faults)
	fs := flag.NewFlagSet("klog", flag.ContinueOnError)
	klog.InitFlags(fs)
	_ = fs.Set("logtostderr", "false")
	_ = fs.Set("alsologtostderr", "false")
	_ = fs.Set("stderrthreshold", "FATAL")
	klog.SetOutput(io.Discard)

	mod, args := os.Args[1], os.Args[2:]
	var sum interface{}
	var err error
	switch mod {
	case "jobqueue":
		sum, err = drivers.JobQueueMain(args)
	default:
		if f, ok := drivers.Modules[mod]; ok {
			sum, err = f(args)
		} else {
			err = fmt.Errorf("unknown module %q", mod)
		}
	}
	if err != nil {
		fmt.Fprintln(os.Stderr, "vh:", err)
		os.Exit(2)
	}
	w := bufio.NewWriter(os.Stdout)
	_ = json.NewEncoder(w).Encode(sum)
	_ = w.Flush()
}
