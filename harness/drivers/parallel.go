package drivers

import (
	"bufio"
	"encoding/json"
	"flag"
	"fmt"
	"os"
	"reflect"
	"sort"
	"strings"

	corev1 "k8s.io/api/core/v1"
	metav1 "k8s.io/apimachinery/pkg/apis/meta/v1"
	"k8s.io/apimachinery/pkg/util/validation/field"
	"k8s.io/utils/pointer"

	execution "github.com/furiko-io/furiko/apis/execution/v1alpha1"
	"github.com/furiko-io/furiko/pkg/execution/taskexecutor/podtaskexecutor"
	"github.com/furiko-io/furiko/pkg/execution/tasks"
	jobutil "github.com/furiko-io/furiko/pkg/execution/util/job"
	"github.com/furiko-io/furiko/pkg/execution/util/parallel"
	"github.com/furiko-io/furiko/pkg/execution/validation"
	"github.com/furiko-io/furiko/pkg/runtime/controllercontext/mock"

	sw "verifharness/simworld"
)

func init() { Modules["parallel"] = ParallelMain }

// Parallel module (C14, binding F): every parallelism spec enumerated by TLC from
// spec/Parallel_Cases.tla is evaluated on the real GenerateIndexes, HashIndex,
// GenerateTaskName, NewPod (substituted task.index_* variables) and
// ValidateParallelismSpec; the observation is judged by TLC (MonParallel).

type PCase struct {
	Kind string     `json:"kind"`
	N    int64      `json:"n,omitempty"`
	Keys []string   `json:"keys,omitempty"`
	Mk   []string   `json:"mk,omitempty"`
	Mv   [][]string `json:"mv,omitempty"`
	// kind "mixed": more than one parallelism type is set at once
	Types []string `json:"types,omitempty"`
}

type PIdx struct {
	Num *int64     `json:"num,omitempty"`
	Key *string    `json:"key,omitempty"`
	M   [][]string `json:"m,omitempty"`
}
type PVars struct {
	Num string     `json:"num"`
	Key string     `json:"key"`
	M   [][]string `json:"m"`
}
type PLine struct {
	Ev       string   `json:"ev"`
	Run      int      `json:"run"`
	C        PCase    `json:"c"`
	Accepted bool     `json:"accepted"`
	Stable   bool     `json:"stable"`
	Idx      []PIdx   `json:"idx"`
	Hash     []string `json:"hash"`
	Name     []string `json:"name"`
	NameL    []string `json:"namel"` // task names under a Job name of the maximum accepted length
	Vars     []PVars  `json:"vars"`
	IVars    []PVars  `json:"ivars"` // the same variables as rendered in an init container
	Slots    int      `json:"slots"` // number of distinct per-index status slots GetParallelStatus reports when every index has one task
	L        Label    `json:"l"`
}

func (c PCase) spec() *execution.ParallelismSpec {
	s := &execution.ParallelismSpec{CompletionStrategy: execution.AllSuccessful}
	switch c.Kind {
	case "count":
		s.WithCount = pointer.Int64(c.N)
	case "keys":
		s.WithKeys = append([]string{}, c.Keys...)
	case "matrix":
		s.WithMatrix = map[string][]string{}
		for i, k := range c.Mk {
			s.WithMatrix[k] = append([]string{}, c.Mv[i]...)
		}
	case "mixed":
		for _, t := range c.Types {
			switch t {
			case "count":
				s.WithCount = pointer.Int64(2)
			case "keys":
				s.WithKeys = []string{"a", "b"}
			case "matrix":
				s.WithMatrix = map[string][]string{"goos": {"linux", "darwin"}}
			}
		}
	}
	return s
}

func projIdx(x execution.ParallelIndex) PIdx {
	switch {
	case x.IndexNumber != nil:
		return PIdx{Num: x.IndexNumber}
	case len(x.MatrixValues) > 0:
		ks := make([]string, 0, len(x.MatrixValues))
		for k := range x.MatrixValues {
			ks = append(ks, k)
		}
		sort.Strings(ks)
		m := [][]string{}
		for _, k := range ks {
			m = append(m, []string{k, x.MatrixValues[k]})
		}
		return PIdx{M: m}
	default:
		k := x.IndexKey
		return PIdx{Key: &k}
	}
}

func evalParallel(v *validation.Validator, c PCase) PLine {
	spec := c.spec()
	line := PLine{Ev: "Case", C: c, Idx: []PIdx{}, Hash: []string{}, Name: []string{}, NameL: []string{}, Vars: []PVars{}, IVars: []PVars{}, Stable: true}
	line.Accepted = len(v.ValidateParallelismSpec(spec, field.NewPath("spec", "template", "parallelism"))) == 0
	indexes := parallel.GenerateIndexes(spec)
	for r := 0; r < 12; r++ {
		if !reflect.DeepEqual(parallel.GenerateIndexes(c.spec()), indexes) {
			line.Stable = false
		}
	}
	// a task template that spells out every index variable
	args := []string{"num=${task.index_num}", "key=${task.index_key}"}
	for _, k := range c.Mk {
		args = append(args, "m."+k+"=${task.index_matrix."+k+"}")
	}
	rj := &execution.Job{ObjectMeta: metav1.ObjectMeta{Name: "job", Namespace: "default", UID: "job-uid"},
		Spec: execution.JobSpec{Template: &execution.JobTemplate{Parallelism: spec}}}
	// all indexes are rendered from this one template object, as the controller renders all tasks of a Job from one cached Job
	tmpl := &corev1.PodTemplateSpec{Spec: corev1.PodSpec{Containers: []corev1.Container{{Name: "c", Image: "img", Args: append([]string{}, args...)}},
		InitContainers: []corev1.Container{{Name: "i", Image: "img", Args: append([]string{}, args...)}}}}
	longName := "a-job-name-of-the-maximum-length-that-admission-accepts-0123" // 60 characters
	rjLong := &execution.Job{ObjectMeta: metav1.ObjectMeta{Name: longName, Namespace: "default", UID: "job-uid"}}
	var refs []execution.TaskRef
	for _, ix := range indexes {
		line.Idx = append(line.Idx, projIdx(ix))
		h, err := parallel.HashIndex(ix)
		if err != nil {
			h = "ERR:" + err.Error()
		}
		line.Hash = append(line.Hash, h)
		ti := tasks.TaskIndex{Retry: 0, Parallel: ix}
		n, err := jobutil.GenerateTaskName(rj.Name, ti)
		if err != nil {
			n = "ERR:" + err.Error()
		}
		if nl, err := jobutil.GenerateTaskName(rjLong.Name, ti); err == nil {
			line.NameL = append(line.NameL, nl)
		} else {
			line.NameL = append(line.NameL, "ERR:"+err.Error())
		}
		pv, iv := PVars{M: [][]string{}}, PVars{M: [][]string{}}
		pod, err := podtaskexecutor.NewPod(rj, tmpl, ti)
		if err != nil {
			n = "ERR:" + err.Error()
		} else {
			if pod.Name != n {
				n = "MISMATCH:" + pod.Name + "/" + n
			}
			parse := func(args []string, v *PVars) {
				for _, a := range args {
					kv := strings.SplitN(a, "=", 2)
					switch {
					case kv[0] == "num":
						v.Num = kv[1]
					case kv[0] == "key":
						v.Key = kv[1]
					case strings.HasPrefix(kv[0], "m."):
						v.M = append(v.M, []string{kv[0][2:], kv[1]})
					}
				}
			}
			parse(pod.Spec.Containers[0].Args, &pv)
			if len(pod.Spec.InitContainers) == 1 {
				parse(pod.Spec.InitContainers[0].Args, &iv)
			}
		}
		line.Name = append(line.Name, n)
		line.Vars = append(line.Vars, pv)
		line.IVars = append(line.IVars, iv)
		ixc := ix
		refs = append(refs, execution.TaskRef{Name: n, RetryIndex: 0, ParallelIndex: &ixc})
	}
	// own status slot: with one task per index, the parallel status must report one entry per index
	rj.Status.Tasks = refs
	if st, err := parallel.GetParallelStatus(rj, refs); err == nil {
		line.Slots = len(st.Indexes)
	} else {
		line.Slots = -1
	}
	return line
}

type PSummary struct {
	Runs   int            `json:"runs"`
	Lines  int            `json:"lines"`
	Cases  int            `json:"cases"`
	Labels map[string]int `json:"labels"`
}

func ParallelMain(args []string) (interface{}, error) {
	fs := flag.NewFlagSet("parallel", flag.ContinueOnError)
	mode := fs.String("mode", "cases", "cases")
	_ = fs.Int64("seed", 1, "seed")
	out := fs.String("out", "", "trace output")
	casesPath := fs.String("cases", "", "cases file")
	if err := fs.Parse(args); err != nil {
		return nil, err
	}
	if *mode != "cases" {
		return nil, fmt.Errorf("parallel: unknown mode %q", *mode)
	}
	f, err := os.Create(*out)
	if err != nil {
		return nil, err
	}
	defer f.Close()
	bw := bufio.NewWriterSize(f, 1<<20)
	defer bw.Flush()
	tr := sw.NewTracer(bw)
	sum := &PSummary{Labels: map[string]int{}}
	v := validation.NewValidator(mock.NewContext())
	cf, err := os.Open(*casesPath)
	if err != nil {
		return nil, err
	}
	defer cf.Close()
	sc := bufio.NewScanner(cf)
	sc.Buffer(make([]byte, 1<<20), 1<<26)
	for sc.Scan() {
		var c PCase
		if err := json.Unmarshal(sc.Bytes(), &c); err != nil {
			return nil, err
		}
		line := evalParallel(v, c)
		line.Run = sum.Cases
		tr.Emit(line)
		sum.Cases++
		sum.Labels[c.Kind]++
	}
	sum.Runs = sum.Cases
	sum.Lines = tr.Lines
	return sum, nil
}
