package drivers

import (
	"bufio"
	"encoding/json"
	"flag"
	"fmt"
	"os"
	"time"

	corev1 "k8s.io/api/core/v1"
	metav1 "k8s.io/apimachinery/pkg/apis/meta/v1"
	fakeclock "k8s.io/utils/clock/testing"
	"k8s.io/utils/pointer"

	execution "github.com/furiko-io/furiko/apis/execution/v1alpha1"
	"github.com/furiko-io/furiko/pkg/execution/controllers/jobcontroller"
	"github.com/furiko-io/furiko/pkg/execution/taskexecutor/podtaskexecutor"
	"github.com/furiko-io/furiko/pkg/execution/tasks"
	jobutil "github.com/furiko-io/furiko/pkg/execution/util/job"
	"github.com/furiko-io/furiko/pkg/utils/ktime"

	sw "verifharness/simworld"
)

func init() { Modules["status"] = StatusMain }

// Status module (C10, C11; binding F): every case enumerated by TLC from
// spec/Status_Cases.tla is evaluated on the real status derivation chain -
// podtaskexecutor.PodTask.GetTaskRef, jobutil.GenerateTaskRefs / GetTaskRef,
// jobcontroller.UpdateJobStatusFromTaskRefs (parallel.GetParallelStatus,
// jobutil.GetCondition, the deletion override, getJobStateFromCondition,
// jobutil.GetPhase) - and the observation is logged next to the case.

type SDS struct {
	Set    bool   `json:"set"`
	State  string `json:"state"`
	Result string `json:"result"`
}
type SRef struct {
	Ex     bool   `json:"ex"`
	Cr     int    `json:"cr,omitempty"`
	Run    int    `json:"run"`
	Fin    int    `json:"fin"`
	State  string `json:"state"`
	Result string `json:"result"`
	Ds     SDS    `json:"ds"`
}
type SPod struct {
	Phase string   `json:"phase"`
	Del   bool     `json:"del"`
	St    bool     `json:"st"`
	Dl    bool     `json:"dl"`
	Cs    []string `json:"cs"`
}
type SJob struct {
	Par    bool     `json:"par"`
	Strat  string   `json:"strat"`
	MaxAtt int      `json:"maxAtt"`
	Ctx    string   `json:"ctx"`
	Idx    [][]SRef `json:"idx"`
}
type SCase struct {
	Case string `json:"case"`
	Pd   *SPod  `json:"pd,omitempty"`
	Ref  *SRef  `json:"ref,omitempty"`
	Jb   *SJob  `json:"jb,omitempty"`
}
type SCond struct {
	Conds       int    `json:"conds"`
	Kind        string `json:"kind"`
	Result      string `json:"result"`
	Reason      string `json:"reason"`
	Fints       int    `json:"fints"`
	Terminating int    `json:"terminating"`
	State       string `json:"state"`
	Phase       string `json:"phase"`
	Created     int    `json:"created"`
}
type SLine struct {
	Ev   string          `json:"ev"`
	Run  int             `json:"run"`
	C    json.RawMessage `json:"c"`
	N    int             `json:"n"`   // number of refs returned
	O    SRef            `json:"o"`   // observed ref (pod / lost cases)
	J    SCond           `json:"j"`   // observed condition (job cases)
	Err  string          `json:"err"` // error returned by the real function
	Same bool            `json:"same"`
	L    Label           `json:"l"`
}

const (
	sTcr, sTst, sADS, sNow = 5, 10, 30, 50
)

func sT(n int) metav1.Time { return metav1.NewTime(time.Unix(sw.Base+int64(n), 0)) }
func sTp(n int) *metav1.Time {
	if n == 0 {
		return nil
	}
	t := sT(n)
	return &t
}
func sTk(t *metav1.Time) int {
	if t == nil || t.IsZero() {
		return 0
	}
	return int(t.Unix() - sw.Base)
}

func (p *SPod) pod() *corev1.Pod {
	pod := &corev1.Pod{
		ObjectMeta: metav1.ObjectMeta{Name: "t0", Namespace: "ns", CreationTimestamp: sT(sTcr),
			Labels: map[string]string{podtaskexecutor.LabelKeyTaskRetryIndex: "0"}},
		Status: corev1.PodStatus{Phase: corev1.PodPhase(p.Phase)},
	}
	if p.Del {
		pod.DeletionTimestamp = sTp(45)
	}
	if p.St {
		pod.Status.StartTime = sTp(sTst)
	}
	if p.Dl {
		pod.Spec.ActiveDeadlineSeconds = pointer.Int64(sADS)
		pod.Status.Reason = "DeadlineExceeded"
		pod.Status.Message = "Pod was active on the node longer than the specified deadline"
	}
	for i, c := range p.Cs {
		k := i + 1
		name := fmt.Sprintf("c%d", k)
		pod.Spec.Containers = append(pod.Spec.Containers, corev1.Container{Name: name, Image: "x"})
		cs := corev1.ContainerStatus{Name: name}
		term := func(code int32, reason string) {
			cs.State.Terminated = &corev1.ContainerStateTerminated{ExitCode: code, Reason: reason, StartedAt: sT(11 + k), FinishedAt: sT(20 + 5*k)}
		}
		switch c {
		case "waiting":
			cs.State.Waiting = &corev1.ContainerStateWaiting{Reason: "ContainerCreating"}
		case "running":
			cs.State.Running = &corev1.ContainerStateRunning{StartedAt: sT(11 + k)}
		case "ok":
			term(0, "Completed")
		case "err":
			term(1, "Error")
		case "oom":
			term(137, "OOMKilled")
		}
		pod.Status.ContainerStatuses = append(pod.Status.ContainerStatuses, cs)
	}
	return pod
}

func (r *SRef) ref(name string, cr int) execution.TaskRef {
	out := execution.TaskRef{Name: name, CreationTimestamp: sT(cr), RunningTimestamp: sTp(r.Run), FinishTimestamp: sTp(r.Fin),
		Status: execution.TaskStatus{State: execution.TaskState(r.State), Result: execution.TaskResult(r.Result)}}
	if r.Ds.Set {
		out.DeletedStatus = &execution.TaskStatus{State: execution.TaskState(r.Ds.State), Result: execution.TaskResult(r.Ds.Result)}
	}
	return out
}

func obsRef(t execution.TaskRef) SRef {
	o := SRef{Ex: true, Run: sTk(t.RunningTimestamp), Fin: sTk(t.FinishTimestamp), State: string(t.Status.State), Result: string(t.Status.Result)}
	if t.DeletedStatus != nil {
		o.Ds = SDS{Set: true, State: string(t.DeletedStatus.State), Result: string(t.DeletedStatus.Result)}
	}
	return o
}

func evalPodCase(c SCase) (line SLine) {
	line.Ev = "Pod"
	defer func() {
		if r := recover(); r != nil {
			line.Err = fmt.Sprint("panic: ", r)
		}
	}()
	var existing []execution.TaskRef
	if c.Ref != nil && c.Ref.Ex {
		existing = append(existing, c.Ref.ref("t0", sTcr))
	}
	var list []tasks.Task
	if c.Case == "pod" {
		list = append(list, podtaskexecutor.NewPodTask(c.Pd.pod(), nil))
	} else {
		line.Ev = "Lost"
	}
	refs := jobutil.GenerateTaskRefs(existing, list)
	again := jobutil.GenerateTaskRefs(existing, list)
	line.N = len(refs)
	if len(refs) > 0 {
		line.O = obsRef(refs[0])
		line.Same = len(again) == len(refs) && obsRef(again[0]) == line.O
	}
	return line
}

func evalJobCase(c SCase) (line SLine) {
	line.Ev = "Job"
	defer func() {
		if r := recover(); r != nil {
			line.Err = fmt.Sprint("panic: ", r)
		}
	}()
	jb := c.Jb
	rj := &execution.Job{
		ObjectMeta: metav1.ObjectMeta{Name: "j", Namespace: "ns", UID: "uid-j", CreationTimestamp: sT(4)},
		Spec: execution.JobSpec{Type: execution.JobTypeAdhoc, Template: &execution.JobTemplate{
			MaxAttempts:  pointer.Int64(int64(jb.MaxAtt)),
			TaskTemplate: execution.TaskTemplate{Pod: &execution.PodTemplateSpec{Spec: corev1.PodSpec{Containers: []corev1.Container{{Name: "c1", Image: "x"}}}}},
		}},
	}
	if jb.Par {
		rj.Spec.Template.Parallelism = &execution.ParallelismSpec{WithCount: pointer.Int64(int64(len(jb.Idx))), CompletionStrategy: execution.ParallelCompletionStrategy(jb.Strat)}
	}
	started := true
	switch jb.Ctx {
	case "queued":
		started = false
	case "queuedsa":
		started = false
		rj.Spec.StartPolicy = &execution.StartPolicySpec{StartAfter: sTp(100)}
	case "queuedenq":
		started = false
		rj.Spec.StartPolicy = &execution.StartPolicySpec{ConcurrencyPolicy: execution.ConcurrencyPolicyEnqueue}
	case "killfuture":
		rj.Spec.KillTimestamp = sTp(sNow + 10)
	case "killpast":
		rj.Spec.KillTimestamp = sTp(30)
	case "adm":
		jobutil.MarkAdmissionError(rj, "a foreign object occupies the task name")
	case "admold":
		jobutil.MarkAdmissionError(rj, "a foreign object occupies the task name")
		rj.Status.Condition.Finished = &execution.JobConditionFinished{FinishTimestamp: sT(40), Result: execution.JobResultAdmissionError}
	case "deleting":
		rj.DeletionTimestamp = sTp(45)
	case "deletingq":
		started = false
		rj.DeletionTimestamp = sTp(45)
	}
	if started {
		rj.Status.StartTime = sTp(6)
	}
	for i, refs := range jb.Idx {
		for r, ref := range refs {
			ti := makeTaskIndex(rj, i, r)
			name, err := jobutil.GenerateTaskName(rj.Name, ti)
			if err != nil {
				line.Err = err.Error()
				return line
			}
			t := ref.ref(name, ref.Cr)
			t.RetryIndex = int64(r)
			if jb.Par {
				pi := ti.Parallel
				t.ParallelIndex = &pi
			}
			rj.Status.Tasks = append(rj.Status.Tasks, t)
		}
	}
	jobutil.SortTaskRefs(rj.Status.Tasks)
	rj.Status.CreatedTasks = int64(len(rj.Status.Tasks))
	out, err := jobcontroller.UpdateJobStatusFromTaskRefs(rj)
	if err != nil {
		line.Err = err.Error()
		return line
	}
	again, _ := jobcontroller.UpdateJobStatusFromTaskRefs(rj)
	line.J = obsCond(out)
	line.Same = again != nil && obsCond(again) == line.J
	return line
}

func obsCond(rj *execution.Job) SCond {
	c := rj.Status.Condition
	o := SCond{State: string(rj.Status.State), Phase: string(rj.Status.Phase), Created: int(rj.Status.CreatedTasks)}
	if c.Queueing != nil {
		o.Conds++
		o.Kind, o.Reason = "Queueing", c.Queueing.Reason
	}
	if c.Waiting != nil {
		o.Conds++
		o.Kind, o.Reason = "Waiting", c.Waiting.Reason
	}
	if c.Running != nil {
		o.Conds++
		o.Kind, o.Terminating = "Running", int(c.Running.TerminatingTasks)
	}
	if c.Finished != nil {
		o.Conds++
		o.Kind, o.Result, o.Reason, o.Fints = "Finished", string(c.Finished.Result), c.Finished.Reason, sTk(&c.Finished.FinishTimestamp)
	}
	return o
}

func StatusMain(args []string) (interface{}, error) {
	fs := flag.NewFlagSet("status", flag.ContinueOnError)
	mode := fs.String("mode", "cases", "cases")
	_ = fs.Int64("seed", 1, "seed")
	out := fs.String("out", "", "trace output")
	casesPath := fs.String("cases", "", "cases file")
	if err := fs.Parse(args); err != nil {
		return nil, err
	}
	if *mode != "cases" {
		return nil, fmt.Errorf("status: unknown mode %q", *mode)
	}
	f, err := os.Create(*out)
	if err != nil {
		return nil, err
	}
	defer f.Close()
	bw := bufio.NewWriterSize(f, 1<<20)
	defer bw.Flush()
	tr := sw.NewTracer(bw)
	sum := &PSummary{Labels: map[string]int{}}
	cf, err := os.Open(*casesPath)
	if err != nil {
		return nil, err
	}
	defer cf.Close()
	ktime.Clock = fakeclock.NewFakeClock(time.Unix(sw.Base+sNow, 0))
	sc := bufio.NewScanner(cf)
	sc.Buffer(make([]byte, 1<<20), 1<<26)
	for sc.Scan() {
		var c SCase
		if err := json.Unmarshal(sc.Bytes(), &c); err != nil {
			return nil, err
		}
		var line SLine
		if c.Case == "job" {
			line = evalJobCase(c)
		} else {
			line = evalPodCase(c)
		}
		line.C = append(json.RawMessage{}, sc.Bytes()...)
		line.Run = sum.Cases
		tr.Emit(line)
		sum.Cases++
		sum.Labels[c.Case]++
	}
	sum.Runs = sum.Cases
	sum.Lines = tr.Lines
	return sum, nil
}
