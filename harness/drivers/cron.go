package drivers

import (
	"bufio"
	"context"
	"encoding/json"
	"flag"
	"fmt"
	"math/rand"
	"os"
	"sort"
	"strconv"
	"strings"
	"time"

	"github.com/furiko-io/cronexpr"
	corev1 "k8s.io/api/core/v1"
	metav1 "k8s.io/apimachinery/pkg/apis/meta/v1"
	"k8s.io/apimachinery/pkg/runtime"
	ktesting "k8s.io/client-go/testing"
	"k8s.io/client-go/tools/cache"
	"k8s.io/utils/pointer"

	configv1alpha1 "github.com/furiko-io/furiko/apis/config/v1alpha1"
	execution "github.com/furiko-io/furiko/apis/execution/v1alpha1"
	"github.com/furiko-io/furiko/pkg/execution/controllers/croncontroller"
	"github.com/furiko-io/furiko/pkg/execution/controllers/jobconfigcontroller"
	"github.com/furiko-io/furiko/pkg/execution/controllers/jobqueuecontroller"
	"github.com/furiko-io/furiko/pkg/execution/mutation"
	"github.com/furiko-io/furiko/pkg/execution/stores/activejobstore"
	jobutil "github.com/furiko-io/furiko/pkg/execution/util/job"
	"github.com/furiko-io/furiko/pkg/execution/util/jobconfig"
	"github.com/furiko-io/furiko/pkg/execution/validation"
	"github.com/furiko-io/furiko/pkg/runtime/reconciler"
	"github.com/furiko-io/furiko/pkg/utils/ktime"
	"k8s.io/client-go/tools/record"

	sw "verifharness/simworld"
)

func init() { Modules["cron"] = CronMain }

// Cron module: the real cron worker (heap + informer handlers + update
// channel), cron reconciler (Job creation), active job store, and both
// JobConfig webhooks. One tick of the specification is one minute; tick 0 is an
// hour boundary so that minute-step expressions denote simple tick sets.
const cronBase = int64(1700002800) // 2023-11-14T23:00:00Z
const cronHorizon = 60             // ticks for which due-sets are logged

func ctick(t time.Time) int {
	if t.IsZero() {
		return -1
	}
	return int((t.Unix() - cronBase) / 60)
}
func ctickp(t *metav1.Time) int {
	if t == nil || t.IsZero() {
		return -1
	}
	return ctick(t.Time)
}
func ctime(tick int) time.Time { return time.Unix(cronBase+int64(tick)*60, 0) }

// csec / csecp: seconds since the base instant (-1: none); the unit of every time in the trace.
func csec(t time.Time) int {
	if t.IsZero() {
		return -1
	}
	return int(t.Unix() - cronBase)
}
func csecp(t *metav1.Time) int {
	if t == nil || t.IsZero() {
		return -1
	}
	return csec(t.Time)
}

// ---- projection ----

type CJC struct {
	Ex   bool   `json:"ex"`
	Uid  string `json:"uid"`
	En   bool   `json:"en"`  // has an enabled cron schedule
	Ver  int    `json:"ver"` // schedule version (index into the due-set table announced by the user steps)
	Nbf  int    `json:"nbf"` // -1 none
	Naf  int    `json:"naf"`
	Lu   int    `json:"lu"` // spec.schedule.lastUpdated, -1 none
	Ls   int    `json:"ls"` // status.lastScheduled, -1 none
	Pol  string `json:"pol"`
	MaxC int    `json:"maxc"`
	StA  int    `json:"sta"` // status.active
	StQ  int    `json:"stq"` // status.queued
}
type CJob struct {
	Name    string `json:"name"`
	Jc      string `json:"jc"`      // name of the controller owner
	OwnerOk bool   `json:"ownerok"` // exactly one controller owner reference, to the JobConfig of that name and uid
	LabelOk bool   `json:"labelok"` // jobconfig-uid label = owner uid
	Sched   int    `json:"sched"`   // schedule-time annotation in seconds since the base (-1 none)
	Uid     string `json:"uid"`     // uid of the controller owner
	NameOk  bool   `json:"nameok"`  // name = <jobconfig name>-<unix of the schedule time> (independent formula)
	Started bool   `json:"started"`
	Term    bool   `json:"term"`
	Pol     string `json:"pol"` // spec.startPolicy.concurrencyPolicy
	Adm     bool   `json:"adm"` // carries the admission-error annotation (refused by the queue controller)
}
type CFire struct {
	Jc    string `json:"jc"`
	T     int    `json:"t"`     // seconds since the base
	KeyOk bool   `json:"keyok"` // the work-queue key of this request splits back into (JobConfig key, time)
}
type CState struct {
	Now     int            `json:"now"` // seconds since the base
	Gen     int            `json:"gen"` // controller generation (restarts so far)
	Api     map[string]CJC `json:"api"`
	Cache   map[string]CJC `json:"cache"`
	Evq     int            `json:"evq"`
	Chan    int            `json:"chan"`
	ChanJC  []string       `json:"chanjc"` // JobConfigs queued for a flush, in order
	HNames  []string       `json:"hnames"` // heap slice order
	HPrio   []int          `json:"hprio"`  // priorities in ticks
	HIndex  map[string]int `json:"hindex"`
	Wq      []string       `json:"wq"`
	Retry   []string       `json:"retry"`
	Jobs    []CJob         `json:"jobs"`
	JCache  []string       `json:"jcache"`
	Jevq    int            `json:"jevq"`
	InSync  bool           `json:"insync"`
	Pend    string         `json:"pend"`
	Counter map[string]int `json:"counter"`
	MaxMiss int            `json:"maxmiss"`
	MaxDown int            `json:"maxdown"` // seconds
	Quiet   bool           `json:"quiet"`
	Booted  bool           `json:"booted"`
	Mutated []string       `json:"mutated"` // informer-cache objects the controller wrote into
	System  bool           `json:"system"`
	XReady  []string       `json:"xready"` // ready keys of the composed controllers, as ctrl:key
	XBusy   []string       `json:"xbusy"`  // composed controllers with a pass in flight
}
type CLine struct {
	Ev      string   `json:"ev"`
	L       Label    `json:"l"`
	Op      string   `json:"op"`
	Key     string   `json:"key"`
	Err     string   `json:"err"`
	Run     int      `json:"run"`
	Fired   []CFire  `json:"fired"`   // (jc, t) enqueued by this step (Work)
	Skipped []CFire  `json:"skipped"` // schedules the reconciler skipped in this step (Forbid / queue limit)
	NewVer  int      `json:"newver"`  // UserSet: the schedule version it installs (-1: none)
	Due     []int    `json:"due"`     // UserSet: seconds in [0, horizon] matching that version (pointwise oracle)
	Faulted bool     `json:"faulted"`
	TwinA   []string `json:"twina"` // Twin: the Jobs of the run with faults ...
	TwinB   []string `json:"twinb"` // ... and of the same workload without them
	St      CState   `json:"st"`
}

// CSched is a concrete schedule for one JobConfig version.
type CSched struct {
	Exprs    []string
	TZ       string
	Disabled bool
	Nbf, Naf int  // ticks, -1 none
	None     bool // no schedule at all
}

type CronOpts struct {
	NJC        int
	MaxMissed  int // -1: default (5)
	MaxDownMin int // max downtime threshold in minutes, -1 default (300 s)
	HashNames  bool
	Format     string // "" standard | quartz
	DefaultTZ  string
	Pols       []string
	Delivered  bool
	System     bool // composition: the real job queue controller starts the Jobs and the real jobconfig controller writes the status
}

type CR struct {
	O       CronOpts
	W       *sw.World
	T       *sw.Tracer
	Run     int
	P       *sw.Proc
	P2      *sw.Proc // a second reconciler worker on the same work-queue
	worker  *croncontroller.CronWorker
	gen     int
	chanN   int
	chanJC  []string
	booted  bool
	fired   []CFire
	skipped []CFire
	vers    map[string]int // jc name -> current version number
	verOf   map[string]int // json of the schedule spec -> version
	nver    int
	dues    map[int][]int
	faulted bool
	store   *activejobstore.Store
	cronCfg *configv1alpha1.CronExecutionConfig
	admit   *sw.Admission
	cc      *croncontroller.Context
	xp      map[string]*sw.Proc // composed controllers (system mode): queue, indep, jobconfig
	xq      map[string]string   // their queue names
	specs   map[string]CSched
}

type cronUpdateHandler struct {
	c    *CR
	real croncontroller.UpdateHandler
}

func (h *cronUpdateHandler) OnUpdate(jc *execution.JobConfig) {
	h.c.chanN++
	h.c.chanJC = append(h.c.chanJC, cID(jc.Namespace, jc.Name))
	h.real.OnUpdate(jc)
}

type cronEnqueue struct {
	c    *CR
	real croncontroller.EnqueueHandler
}

func (h *cronEnqueue) EnqueueJobConfig(jc *execution.JobConfig, ts time.Time) error {
	key, _ := croncontroller.JobConfigKeyFunc(jc, ts)
	ok := false
	if kns, kname, err := cache.SplitMetaNamespaceKey(key); err == nil {
		if n, t, err := croncontroller.SplitJobConfigKeyName(kname); err == nil {
			ok = kns == jc.Namespace && n == jc.Name && t.Equal(time.Unix(ts.Unix(), 0))
		}
	}
	h.c.fired = append(h.c.fired, CFire{Jc: cID(jc.Namespace, jc.Name), T: csec(ts), KeyOk: ok})
	return h.real.EnqueueJobConfig(jc, ts)
}

type cronRecorder struct{ c *CR }

func (r *cronRecorder) CreatedJob(context.Context, *execution.JobConfig, *execution.Job) {}
func (r *cronRecorder) CreateJobFailed(context.Context, *execution.JobConfig, *execution.Job, string) {
}
func (r *cronRecorder) SkippedJobSchedule(_ context.Context, jc *execution.JobConfig, ts time.Time, _ string) {
	r.c.skipped = append(r.c.skipped, CFire{Jc: cID(jc.Namespace, jc.Name), T: csec(ts), KeyOk: true})
}

func NewCR(o CronOpts, t *sw.Tracer, run int) *CR {
	c := &CR{O: o, T: t, Run: run, vers: map[string]int{}, verOf: map[string]int{}, dues: map[int][]int{}, specs: map[string]CSched{}}
	c.W = sw.NewWorld(time.Unix(cronBase, 0))
	ktime.Clock = c.W.Clk
	croncontroller.Clock = c.W.Clk
	mutation.Clock = c.W.Clk
	validation.Clock = c.W.Clk
	cfg := &configv1alpha1.CronExecutionConfig{CronFormat: o.Format, CronHashNames: pointer.Bool(o.HashNames)}
	if o.MaxMissed >= 0 {
		cfg.MaxMissedSchedules = pointer.Int64(int64(o.MaxMissed))
	}
	if o.MaxDownMin >= 0 {
		cfg.MaxDowntimeThresholdSeconds = int64(o.MaxDownMin * 60)
	}
	if o.DefaultTZ != "" {
		cfg.DefaultTimezone = pointer.String(o.DefaultTZ)
	}
	c.cronCfg = cfg
	c.W.Cfg.SetConfigs(map[configv1alpha1.ConfigName]runtime.Object{configv1alpha1.CronExecutionConfigName: cfg})
	adm, err := sw.NewAdmission(c.W.Proc("webhook").Context())
	if err != nil {
		panic(err)
	}
	c.admit = adm
	c.W.API.Admit = adm.Admit
	return c
}

// Boot starts the controllers (informers listed, store recovered, heap initialised from the lister).
func (c *CR) Boot() {
	c.build()
	c.booted = true
}

func (c *CR) build() {
	w := c.W
	sctx := w.Proc("store").Context()
	store, err := activejobstore.NewStore(sctx)
	if err != nil {
		panic(err)
	}
	w.Stores.Register(store)
	c.store = store
	w.Store.Real = store
	w.Store.Gated = false

	p := w.Proc("cron")
	c.P = p
	cc := croncontroller.NewContext(p.Context())
	c.cc = cc
	q := sw.NewQueue("cron")
	cc.VerifSetQueue(q)
	p.Queues["cron"] = q
	croncontroller.NewInformerWorker(cc, &cronUpdateHandler{c: c, real: croncontroller.NewUpdateHandler(cc)}).Init()
	c.worker = croncontroller.NewCronWorker(cc, &cronEnqueue{c: c, real: croncontroller.VerifNewEnqueueHandler(cc)})
	rec := &cronRecorder{c: c}
	ctl := croncontroller.NewExecutionControl("cron", p.CS.Furiko().ExecutionV1alpha1(), rec)
	st, err := p.Context().Stores().ActiveJobStore()
	if err != nil {
		panic(err)
	}
	ctrl := reconciler.NewController(croncontroller.NewReconciler(cc, ctl, rec, st, nil), q)
	p.Work["cron"] = ctrl.VerifWorkOnce
	p2 := w.Proc("cronB")
	c.P2 = p2
	cc2 := croncontroller.NewContext(p2.Context())
	cc2.VerifSetQueue(q)
	p2.Queues["cron"] = q
	ctl2 := croncontroller.NewExecutionControl("cron", p2.CS.Furiko().ExecutionV1alpha1(), rec)
	p2.Work["cron"] = reconciler.NewController(croncontroller.NewReconciler(cc2, ctl2, rec, st, nil), q).VerifWorkOnce
	c.xp, c.xq = map[string]*sw.Proc{}, map[string]string{}
	if c.O.System {
		rec2 := record.NewFakeRecorder(1 << 20)
		qp, ip := w.Proc("queue"), w.Proc("indep")
		jq := jobqueuecontroller.NewContextWithRecorder(qp.Context(), rec2)
		pq, iq := sw.NewQueue("perconfig"), sw.NewQueue("independent")
		jq.VerifSetQueues(pq, iq)
		qp.Queues["perconfig"], ip.Queues["independent"] = pq, iq
		jobqueuecontroller.NewInformerWorker(jq)
		qp.Work["perconfig"] = reconciler.NewController(jobqueuecontroller.NewPerConfigReconciler(jq, nil, jobqueuecontroller.NewJobControl(qp.CS.Furiko().ExecutionV1alpha1(), rec2)), pq).VerifWorkOnce
		ip.Work["independent"] = reconciler.NewController(jobqueuecontroller.NewIndependentReconciler(jq, nil, jobqueuecontroller.NewJobControl(ip.CS.Furiko().ExecutionV1alpha1(), rec2)), iq).VerifWorkOnce
		jp := w.Proc("jobconfig")
		jcc := jobconfigcontroller.NewContextWithRecorder(jp.Context(), rec2)
		jcq := sw.NewQueue("jobconfig")
		jcc.VerifSetQueue(jcq)
		jp.Queues["jobconfig"] = jcq
		jobconfigcontroller.NewInformerWorker(jcc)
		jp.Work["jobconfig"] = reconciler.NewController(jobconfigcontroller.NewReconciler(jcc, nil), jcq).VerifWorkOnce
		c.xp["queue"], c.xp["indep"], c.xp["jobconfig"] = qp, ip, jp
		c.xq["queue"], c.xq["indep"], c.xq["jobconfig"] = "perconfig", "independent", "jobconfig"
	}
	// informers start (relist), store recovers, cron worker initialises its heap from the lister
	w.Inf.JobConfigs.Relist(w.API.List("jobconfigs"))
	w.Inf.Jobs.Relist(w.API.List("jobs"))
	if err := store.Recover(context.Background()); err != nil {
		panic(err)
	}
	if err := c.worker.Init(); err != nil {
		panic(err)
	}
	c.chanN, c.chanJC = 0, nil
}

// Identities. A JobConfig has a trace id (jc1, jc2.v1.x, jc3, jc4). The third one lives in another namespace under the
// SAME name as the first (per-JobConfig state must be keyed by namespace and name); the second has dots in its name
// (work-queue keys are split at dots).
const ns2 = "tenant-b"

func cReal(id string) (string, string) {
	if id == "jc3" {
		return ns2, "jc1"
	}
	return ns, id
}
func cID(namespace, name string) string {
	if namespace == ns2 && name == "jc1" {
		return "jc3"
	}
	return name
}

// cKeyID maps "namespace/name[.unix]" and "namespace/name[-unix]" keys of the real code to their trace form.
func cKeyID(key string) string {
	namespace, rest := ns, key
	if i := strings.Index(key, "/"); i >= 0 {
		namespace, rest = key[:i], key[i+1:]
	}
	if namespace == ns2 && strings.HasPrefix(rest, "jc1") {
		return "jc3" + rest[3:]
	}
	return rest
}

// cKeyReal is the inverse of cKeyID.
func cKeyReal(id string) string {
	if strings.HasPrefix(id, "jc3") {
		return ns2 + "/jc1" + id[3:]
	}
	return ns + "/" + id
}

func jcName(i int) string {
	if i == 2 {
		return "jc2.v1.x"
	}
	return fmt.Sprintf("jc%d", i)
}

// ---- the pointwise due-set oracle (independent of furiko's iteration logic) ----

func oracleLocation(tz, def string) *time.Location {
	if tz == "" {
		tz = def
	}
	if tz == "" {
		tz = "UTC"
	}
	if tz == "GMT" {
		tz = "UTC"
	}
	if loc, err := time.LoadLocation(tz); err == nil {
		return loc
	}
	if strings.HasPrefix(tz, "UTC") || strings.HasPrefix(tz, "GMT") {
		off := tz[3:]
		sign := 1
		if strings.HasPrefix(off, "-") {
			sign = -1
		}
		off = strings.TrimLeft(off, "+-")
		h, m := 0, 0
		if strings.Contains(off, ":") {
			parts := strings.SplitN(off, ":", 2)
			h, _ = strconv.Atoi(parts[0])
			m, _ = strconv.Atoi(parts[1])
		} else if len(off) == 4 {
			h, _ = strconv.Atoi(off[:2])
			m, _ = strconv.Atoi(off[2:])
		} else {
			h, _ = strconv.Atoi(off)
		}
		return time.FixedZone(tz, sign*(h*3600+m*60))
	}
	panic("oracle: unknown timezone " + tz)
}

// dueTicks returns the instants t (seconds since the base, 0 <= t <= dueHorizonSec) at which the schedule is due: some
// single expression, parsed on its own, has its next activation after (t - 1ns) exactly at t; inside [nbf, naf].
// CSched windows are in ticks (minutes).
const dueHorizonSec = (cronHorizon + 45) * 60

func (c *CR) dueTicks(name string, s CSched) []int {
	out := []int{}
	if s.None || s.Disabled {
		return out
	}
	format := cronexpr.CronFormatStandard
	if c.O.Format == "quartz" {
		format = cronexpr.CronFormatQuartz
	}
	loc := oracleLocation(s.TZ, c.O.DefaultTZ)
	var exprs []*cronexpr.Expression
	secs := false
	for _, e := range s.Exprs {
		var opts []cronexpr.ParseOption
		if c.O.HashNames {
			rns, rname := cReal(name)
			opts = append(opts, cronexpr.WithHash(rns+"/"+rname), cronexpr.WithHashFields())
		}
		x, err := cronexpr.ParseForFormat(format, e, opts...)
		if err != nil {
			panic(fmt.Sprintf("oracle: cannot parse %q: %v", e, err))
		}
		exprs = append(exprs, x)
		if len(strings.Fields(e)) == 7 {
			secs = true
		}
	}
	step := 60
	if secs {
		step = 1 // only 7-field expressions can be due off the minute
	}
	for t := 0; t <= dueHorizonSec; t += step {
		if (s.Nbf >= 0 && t < s.Nbf*60) || (s.Naf >= 0 && t > s.Naf*60) {
			continue
		}
		at := time.Unix(cronBase+int64(t), 0).In(loc)
		for _, x := range exprs {
			if x.Next(at.Add(-time.Nanosecond)).Equal(at) {
				out = append(out, t)
				break
			}
		}
	}
	return out
}

// ---- state ----

func (c *CR) projJC(o runtime.Object) CJC {
	if o == nil {
		return CJC{Ver: -1, Nbf: -1, Naf: -1, Lu: -1, Ls: -1}
	}
	x := o.(*execution.JobConfig)
	p := CJC{Ex: true, Uid: string(x.UID), Ver: -1, Nbf: -1, Naf: -1, Lu: -1, Ls: csecp(x.Status.LastScheduled), Pol: string(x.Spec.Concurrency.Policy),
		MaxC: int(x.Spec.Concurrency.GetMaxConcurrency()), StA: int(x.Status.Active), StQ: int(x.Status.Queued)}
	if s := x.Spec.Schedule; s != nil {
		p.En = !s.Disabled && s.Cron != nil
		p.Lu = csecp(s.LastUpdated)
		if s.Constraints != nil {
			p.Nbf, p.Naf = csecp(s.Constraints.NotBefore), csecp(s.Constraints.NotAfter)
		}
		cp := s.DeepCopy()
		cp.LastUpdated = nil
		b, _ := json.Marshal(cp)
		if v, ok := c.verOf[cID(x.Namespace, x.Name)+"|"+string(b)]; ok {
			p.Ver = v
		}
	}
	return p
}

func (c *CR) State() CState {
	w := c.W
	now := w.Clk.Now()
	s := CState{Now: csec(now), Gen: c.gen, ChanJC: append([]string{}, c.chanJC...), XReady: []string{}, XBusy: []string{}, Mutated: []string{}, Api: map[string]CJC{}, Cache: map[string]CJC{}, HIndex: map[string]int{},
		Counter: map[string]int{}, HNames: []string{}, HPrio: []int{}, Wq: []string{}, Retry: []string{}, Jobs: []CJob{}, JCache: []string{}}
	for i := 1; i <= c.O.NJC; i++ {
		n := jcName(i)
		rns, rname := cReal(n)
		s.Api[n] = c.projJC(w.API.Get("jobconfigs", rns, rname))
		s.Cache[n] = c.projJC(sw.CacheGet(w.Inf.JobConfigs, rns+"/"+rname))
		if o := sw.CacheGet(w.Inf.JobConfigs, rns+"/"+rname); o != nil && c.booted {
			s.Counter[n] = int(c.store.CountActiveJobsForConfig(o.(*execution.JobConfig)))
		}
	}
	s.Evq, s.Jevq = w.Inf.JobConfigs.Pending(), w.Inf.Jobs.Pending()
	if c.booted {
		a, u := c.cc.VerifPending()
		s.Chan = a + u
	}
	s.Booted = c.booted
	s.Mutated = append(w.Inf.JobConfigs.Mutated(), w.Inf.Jobs.Mutated()...)
	s.MaxMiss = 5
	if c.O.MaxMissed >= 0 {
		s.MaxMiss = c.O.MaxMissed
	}
	s.MaxDown = 300
	if c.O.MaxDownMin > 0 {
		s.MaxDown = c.O.MaxDownMin * 60
	}
	s.Pend = "none"
	if !c.booted {
		s.Quiet = false
		return s
	}
	q := c.P.Queues["cron"]
	if sch := c.worker.VerifSchedule(); sch != nil {
		names, prios, index := sch.VerifSnapshot()
		for i, n := range names {
			s.HNames = append(s.HNames, cKeyID(n))
			s.HPrio = append(s.HPrio, int(int64(prios[i])-cronBase))
		}
		for k, v := range index {
			s.HIndex[cKeyID(k)] = v
		}
	}
	for _, k := range q.Ready() {
		s.Wq = append(s.Wq, cKeyID(k))
	}
	for _, k := range sw.SortedKeys(q.Retries) {
		s.Retry = append(s.Retry, cKeyID(k))
	}
	for _, o := range w.API.List("jobs") {
		j := o.(*execution.Job)
		cj := CJob{Name: cKeyID(j.Namespace + "/" + j.Name), Sched: -1, Started: !j.Status.StartTime.IsZero(), Term: j.Status.Phase.IsTerminal()}
		if j.Spec.StartPolicy != nil {
			cj.Pol = string(j.Spec.StartPolicy.ConcurrencyPolicy)
		}
		_, cj.Adm = jobutil.GetAdmissionErrorMessage(j)
		owner := ""
		nctl := 0
		for _, r := range j.OwnerReferences {
			if r.Controller != nil && *r.Controller {
				nctl++
				owner = r.Name
				cj.Jc = cID(j.Namespace, r.Name)
				cj.OwnerOk = r.Kind == execution.KindJobConfig
				cj.LabelOk = j.Labels[jobconfig.LabelKeyJobConfigUID] == string(r.UID)
				cj.Uid = string(r.UID)
			}
		}
		if nctl != 1 {
			cj.OwnerOk = false
		}
		if v, ok := j.Annotations[jobconfig.AnnotationKeyScheduleTime]; ok {
			if u, err := strconv.ParseInt(v, 10, 64); err == nil {
				cj.Sched = int(u - cronBase)
				cj.NameOk = j.Name == fmt.Sprintf("%s-%d", owner, u)
			}
		}
		s.Jobs = append(s.Jobs, cj)
	}
	for _, o := range w.Inf.Jobs.GetIndexer().List() {
		s.JCache = append(s.JCache, cKeyID(o.(*execution.Job).Namespace+"/"+o.(*execution.Job).Name))
	}
	sort.Strings(s.JCache)
	s.InSync = c.P.Stp != nil || c.P2.Stp != nil
	s.Pend = "none"
	if c.P.Stp != nil {
		s.Pend = c.P.Stp.Pending().Op()
	} else if c.P2.Stp != nil {
		s.Pend = c.P2.Stp.Pending().Op()
	}
	s.MaxMiss = 5
	if c.O.MaxMissed >= 0 {
		s.MaxMiss = c.O.MaxMissed
	}
	s.MaxDown = 300
	if c.O.MaxDownMin > 0 {
		s.MaxDown = c.O.MaxDownMin * 60
	}
	s.System, s.XReady, s.XBusy = c.O.System, []string{}, []string{}
	for _, n := range []string{"queue", "indep", "jobconfig"} {
		xp := c.xp[n]
		if xp == nil {
			continue
		}
		xq := xp.Queues[c.xq[n]]
		for _, k := range xq.Ready() {
			s.XReady = append(s.XReady, n+":"+cKeyID(k))
		}
		for _, k := range sw.SortedKeys(xq.Retries) {
			s.XReady = append(s.XReady, n+":retry:"+cKeyID(k))
		}
		if xp.Stp != nil {
			s.XBusy = append(s.XBusy, n)
		}
	}
	s.Quiet = !s.InSync && len(s.Wq) == 0 && len(s.Retry) == 0 && s.Evq == 0 && s.Jevq == 0 && s.Chan == 0 && len(s.XReady) == 0 && len(s.XBusy) == 0
	return s
}

type ioDiscard struct{}

func (ioDiscard) Write(p []byte) (int, error) { return len(p), nil }

// outcome is the observable result of a run: the Jobs that exist, by owner and schedule time.
func (c *CR) outcome() []string {
	out := []string{}
	for _, o := range c.W.API.List("jobs") {
		j := o.(*execution.Job)
		out = append(out, cKeyID(j.Namespace+"/"+j.Name))
	}
	sort.Strings(out)
	return out
}

func (c *CR) emit(ev string, l Label, seg *sw.Seg, newver int, due []int) {
	line := CLine{Ev: ev, L: l, Run: c.Run, Fired: c.fired, Skipped: c.skipped, NewVer: newver, Due: due, Faulted: c.faulted, TwinA: []string{}, TwinB: []string{}}
	if line.Fired == nil {
		line.Fired = []CFire{}
	}
	if line.Skipped == nil {
		line.Skipped = []CFire{}
	}
	if line.Due == nil {
		line.Due = []int{}
	}
	c.fired, c.skipped = nil, nil
	if seg != nil && seg.Done != nil {
		line.Op, line.Key, line.Err = seg.Done.Op(), cKeyID(seg.Done.Key), seg.Done.Err
	}
	line.St = c.State()
	c.T.Emit(line)
}

// ---- schedules ----

// stdSched maps the specification's abstract due-set ids to concrete schedules: id k = every k-th tick.
func stdSched(id int, disabled bool, nbf, naf int) CSched {
	if id == 0 {
		return CSched{None: true, Nbf: -1, Naf: -1}
	}
	e := "* * * * *"
	if id > 1 {
		e = fmt.Sprintf("*/%d * * * *", id)
	}
	return CSched{Exprs: []string{e}, TZ: "UTC", Disabled: disabled, Nbf: nbf, Naf: naf}
}

func (s CSched) spec() *execution.ScheduleSpec {
	if s.None {
		return nil
	}
	sp := &execution.ScheduleSpec{Cron: &execution.CronSchedule{Timezone: s.TZ}, Disabled: s.Disabled}
	if len(s.Exprs) == 1 {
		sp.Cron.Expression = s.Exprs[0]
	} else {
		sp.Cron.Expressions = append(execution.CronExpressionList{}, s.Exprs...)
	}
	if s.Nbf >= 0 || s.Naf >= 0 {
		sp.Constraints = &execution.ScheduleContraints{}
		if s.Nbf >= 0 {
			t := metav1.NewTime(ctime(s.Nbf))
			sp.Constraints.NotBefore = &t
		}
		if s.Naf >= 0 {
			t := metav1.NewTime(ctime(s.Naf))
			sp.Constraints.NotAfter = &t
		}
	}
	return sp
}

// register gives the schedule a version number and computes its due-set with the oracle.
func (c *CR) register(name string, s CSched) (int, []int) {
	sp := s.spec()
	if sp == nil {
		return -1, nil
	}
	b, _ := json.Marshal(sp)
	k := name + "|" + string(b)
	if v, ok := c.verOf[k]; ok {
		return v, c.dues[v]
	}
	c.nver++
	c.verOf[k] = c.nver
	c.dues[c.nver] = c.dueTicks(name, s)
	return c.nver, c.dues[c.nver]
}

func (c *CR) jcObj(name string) *execution.JobConfig {
	rns, rname := cReal(name)
	if o := c.W.API.Get("jobconfigs", rns, rname); o != nil {
		return o.(*execution.JobConfig)
	}
	return nil
}

// UserSet creates or updates a JobConfig with the given schedule (through the real webhooks).
func (c *CR) UserSet(l Label, s CSched) bool {
	name := jcName(l.C)
	pol := l.P
	if pol == "" {
		pol = "Allow"
	}
	ver, due := c.register(name, s)
	cur := c.jcObj(name)
	var err error
	if cur == nil {
		rns, rname := cReal(name)
		jc := &execution.JobConfig{ObjectMeta: metav1.ObjectMeta{Name: rname, Namespace: rns},
			Spec: execution.JobConfigSpec{Concurrency: execution.ConcurrencySpec{Policy: execution.ConcurrencyPolicy(pol)}, Schedule: s.spec(),
				Template: execution.JobTemplateSpec{Spec: execution.JobTemplate{TaskTemplate: execution.TaskTemplate{Pod: &execution.PodTemplateSpec{}}}}}}
		jc.Spec.Template.Spec.TaskTemplate.Pod.Spec.Containers = []corev1.Container{{Name: "c", Image: "x"}}
		// template metadata: every JobConfig has an annotation; the even ones carry (copy-pasted) labels including the reserved
		// JobConfig-UID key with somebody else's value, which the controller must override
		jc.Spec.Template.Annotations = map[string]string{"example.com/note": "from-template"}
		if l.C%2 == 0 {
			jc.Spec.Template.Labels = map[string]string{"team": "a", jobconfig.LabelKeyJobConfigUID: "00000000-not-this-jobconfig"}
		}
		_, err = c.W.API.Direct("user", ktesting.NewCreateAction(sw.JobConfigsGVR, rns, jc))
	} else {
		if cur.DeletionTimestamp != nil {
			return false
		}
		var lu *metav1.Time
		if cur.Spec.Schedule != nil {
			lu = cur.Spec.Schedule.LastUpdated
		}
		cur.Spec.Schedule = s.spec()
		if cur.Spec.Schedule != nil {
			cur.Spec.Schedule.LastUpdated = lu
		}
		cur.Spec.Concurrency.Policy = execution.ConcurrencyPolicy(pol)
		cur.ResourceVersion = ""
		_, err = c.W.API.Direct("user", ktesting.NewUpdateAction(sw.JobConfigsGVR, cur.Namespace, cur))
	}
	if err != nil {
		panic(fmt.Sprintf("UserSet %s %+v: %v", name, s, err))
	}
	c.specs[name] = s
	c.emit("UserSet", l, nil, ver, due)
	return true
}

// Apply executes one label.
func (c *CR) Apply(l Label) bool {
	w := c.W
	var q *sw.Queue
	if c.booted {
		q = c.P.Queues["cron"]
	} else if l.A != "UserSet" && l.A != "UserDelete" && l.A != "Tick" && l.A != "Boot" && l.A != "DeliverJC" {
		return false
	}
	switch l.A {
	case "Boot":
		if c.booted {
			return false
		}
		c.Boot()
	case "UserSet": // C jc, J due-set id (0 none), S disabled, I nbf, R naf (0 = none), P policy
		nbf, naf := -1, -1
		if l.I > 0 {
			nbf = l.I
		}
		if l.R > 0 {
			naf = l.R
		}
		return c.UserSet(l, stdSched(l.J, l.S, nbf, naf))
	case "UserDelete":
		name := jcName(l.C)
		if c.jcObj(name) == nil {
			return false
		}
		rns, rname := cReal(name)
		if _, err := w.API.Direct("user", ktesting.NewDeleteAction(sw.JobConfigsGVR, rns, rname)); err != nil {
			panic(err)
		}
	case "Tick":
		d := l.D
		if d == 0 {
			d = 1
		}
		now := w.Clk.Now()
		// land on the minute boundary d ticks ahead plus the requested seconds (Sa)
		target := time.Unix(cronBase+int64(ctick(now)+d)*60+int64(l.Sa), 0)
		if l.Sa%2 == 1 {
			target = target.Add(650 * time.Millisecond) // a tick that is late by a fraction of a second (the trace logs whole seconds, rounded down)
		}
		w.Clk.Step(target.Sub(now))
	case "DeliverJC":
		if !w.Inf.JobConfigs.Deliver() {
			return false
		}
	case "DeliverJob":
		if !w.Inf.Jobs.Deliver() {
			return false
		}
	case "JCWatchBreak": // the JobConfig watch breaks: undelivered events are lost, the informer lists again (tombstones for deleted JobConfigs)
		if w.Inf.JobConfigs.Pending() == 0 {
			return false
		}
		w.Inf.JobConfigs.Resync(w.API.List("jobconfigs"))
	case "Work":
		if c.P.Stp != nil {
			// the cron worker is its own goroutine in production; Work is atomic here (deviation named in spec/Cron.tla)
		}
		c.worker.Work()
		c.chanN, c.chanJC = 0, nil
	case "StatusSync": // the jobconfig controller's status write, reduced to lastScheduled (monotone maximum over its Jobs)
		if c.O.System {
			return false // the real jobconfig controller writes the status
		}
		name := jcName(l.C)
		cur := c.jcObj(name)
		if cur == nil {
			return false
		}
		var latest *metav1.Time
		for _, o := range w.API.List("jobs") {
			j := o.(*execution.Job)
			if ref := metav1.GetControllerOf(j); ref == nil || ref.UID != cur.UID {
				continue
			}
			if v, ok := j.Annotations[jobconfig.AnnotationKeyScheduleTime]; ok {
				if u, err := strconv.ParseInt(v, 10, 64); err == nil {
					t := metav1.NewTime(time.Unix(u, 0))
					if latest == nil || t.After(latest.Time) {
						latest = &t
					}
				}
			}
		}
		if latest == nil || (cur.Status.LastScheduled != nil && !latest.After(cur.Status.LastScheduled.Time)) {
			return false
		}
		w.API.Mutate("jobconfigs", cur.Namespace, cur.Name, func(o runtime.Object) runtime.Object {
			x := o.(*execution.JobConfig)
			x.Status.LastScheduled = latest
			return x
		})
	case "JobStart", "JobFinish": // the queue / job controllers' writes: K = job name
		if c.O.System && l.A == "JobStart" {
			return false // the real queue controller starts Jobs
		}
		jk := strings.SplitN(cKeyReal(l.K), "/", 2)
		o := w.API.Get("jobs", jk[0], jk[1])
		if o == nil {
			return false
		}
		j := o.(*execution.Job)
		if l.A == "JobStart" && !j.Status.StartTime.IsZero() || l.A == "JobFinish" && (j.Status.StartTime.IsZero() || j.Status.Phase.IsTerminal()) {
			return false
		}
		if l.A == "JobStart" {
			// as the queue controller does: reserve the slot in the store, then write the start time
			if ref := metav1.GetControllerOf(j); ref != nil {
				if jo := sw.CacheGet(w.Inf.JobConfigs, j.Namespace+"/"+ref.Name); jo != nil {
					jcfg := jo.(*execution.JobConfig)
					c.store.CheckAndAdd(jcfg, c.store.CountActiveJobsForConfig(jcfg))
				}
			}
		}
		w.API.Mutate("jobs", jk[0], jk[1], func(o runtime.Object) runtime.Object {
			x := o.(*execution.Job)
			if l.A == "JobStart" {
				t := metav1.NewTime(w.Clk.Now())
				x.Status.StartTime = &t
				x.Status.Phase = execution.JobRunning
			} else {
				x.Status.Phase = execution.JobSucceeded
			}
			return x
		})
	case "JobGone": // a Job finishes and is cleaned up (TTL): K = job name
		jk := strings.SplitN(cKeyReal(l.K), "/", 2)
		if w.API.Get("jobs", jk[0], jk[1]) == nil {
			return false
		}
		w.API.Mutate("jobs", jk[0], jk[1], func(o runtime.Object) runtime.Object { return nil })
	case "RetryFire":
		if !q.Retries[cKeyReal(l.K)] {
			return false
		}
		q.FireRetry(cKeyReal(l.K))
	case "SyncBegin":
		k := cKeyReal(l.K)
		wp := c.P
		if l.I == 2 {
			wp = c.P2
		}
		if wp.Stp != nil || !q.IsReady(k) {
			return false
		}
		seg := wp.SyncBegin("cron", k)
		c.emit("SyncBegin", l, &seg, -1, nil)
		return true
	case "Step":
		wp := c.P
		if l.I == 2 {
			wp = c.P2
		}
		if wp.Stp == nil {
			return false
		}
		if l.F == "applied" {
			c.faulted = true
		}
		seg := wp.Step(faultErr(l.F))
		c.emit("Step", l, &seg, -1, nil)
		return true
	case "XSyncBegin", "XRetryFire", "XStep": // composed controllers: X = controller, K = key
		xp := c.xp[l.X]
		if xp == nil {
			return false
		}
		xq := xp.Queues[c.xq[l.X]]
		switch l.A {
		case "XRetryFire":
			if !xq.Retries[cKeyReal(l.K)] {
				return false
			}
			xq.FireRetry(cKeyReal(l.K))
		case "XSyncBegin":
			if xp.Stp != nil || !xq.IsReady(cKeyReal(l.K)) {
				return false
			}
			seg := xp.SyncBegin(c.xq[l.X], cKeyReal(l.K))
			c.emit(l.A, l, &seg, -1, nil)
			return true
		case "XStep":
			if xp.Stp == nil {
				return false
			}
			seg := xp.Step(faultErr(l.F))
			c.emit(l.A, l, &seg, -1, nil)
			return true
		}
	case "Restart":
		w.Crash()
		c.gen++
		c.W = w.Rebirth(fmt.Sprint(c.gen))
		adm, err := sw.NewAdmission(c.W.Proc("webhook").Context())
		if err != nil {
			panic(err)
		}
		c.admit = adm
		c.W.API.Admit = adm.Admit
		c.build()
	default:
		panic("unknown label " + l.A)
	}
	c.emit(l.A, l, nil, -1, nil)
	return true
}

// Drain: deliver everything, run the reconciler to quiescence, one final Work.
func (c *CR) Drain(budget int) bool {
	worked := false
	for n := 0; n < budget; n++ {
		w := c.W
		q := c.P.Queues["cron"]
		switch {
		case c.P.Stp != nil:
			c.Apply(Label{A: "Step"})
		case c.P2.Stp != nil:
			c.Apply(Label{A: "Step", I: 2})
		case w.Inf.JobConfigs.Pending() > 0:
			c.Apply(Label{A: "DeliverJC"})
		case w.Inf.Jobs.Pending() > 0:
			c.Apply(Label{A: "DeliverJob"})
		case c.xDrainStep():
		case len(q.Ready()) > 0:
			c.Apply(Label{A: "SyncBegin", K: cKeyID(q.Ready()[0])})
		case len(q.Retries) > 0:
			c.Apply(Label{A: "RetryFire", K: cKeyID(sw.SortedKeys(q.Retries)[0])})
		case !worked:
			c.Apply(Label{A: "Work"})
			worked = true
		default:
			return true
		}
	}
	return false
}

// xDrainStep advances the composed controllers by one step if any of them has work.
func (c *CR) xDrainStep() bool {
	for _, n := range []string{"queue", "indep", "jobconfig"} {
		xp := c.xp[n]
		if xp == nil {
			continue
		}
		xq := xp.Queues[c.xq[n]]
		switch {
		case xp.Stp != nil:
			return c.Apply(Label{A: "XStep", X: n})
		case len(xq.Ready()) > 0:
			return c.Apply(Label{A: "XSyncBegin", X: n, K: cKeyID(xq.Ready()[0])})
		case len(xq.Retries) > 0:
			return c.Apply(Label{A: "XRetryFire", X: n, K: cKeyID(sw.SortedKeys(xq.Retries)[0])})
		}
	}
	return false
}

func (c *CR) Finale(budget int) bool {
	if !c.Drain(budget) {
		c.emit("DrainFailed", Label{A: "DrainFailed"}, nil, -1, nil)
		return false
	}
	c.emit("Final", Label{A: "Final"}, nil, -1, nil)
	return true
}

// ---- random driver ----

var cronExprPool = []string{"* * * * *", "*/2 * * * *", "*/3 * * * *", "*/5 * * * *", "1-59/4 * * * *", "H/5 * * * *", "H * * * *", "7,11,13 * * * *",
	"0 * * * * * *", "30 */2 * * * * *", "H H/2 * * * * *", "10-20 23,0 * * *", "*/7 * 14,15 11 *", "0 0 * * *", "5 23 * * 2", "*/10 * * * 2-3",
	// bounded year fields: exhausted before the base instant, exhausted during the run, and live
	"0 12 9 2 * 2021", "*/4 23 14 11 * 2023", "0 30 23 14 11 * 2023", "*/6 * * * * 2023-2024"}
var cronTZPool = []string{"UTC", "", "Asia/Singapore", "America/New_York", "UTC+05:30", "GMT-3", "UTC-10:00", "Asia/Kolkata", "GMT"}

func (c *CR) randSched(rng *rand.Rand) CSched {
	if rng.Intn(8) == 0 {
		return CSched{None: true, Nbf: -1, Naf: -1}
	}
	s := CSched{TZ: cronTZPool[rng.Intn(len(cronTZPool))], Disabled: rng.Intn(7) == 0, Nbf: -1, Naf: -1}
	n := 1
	if rng.Intn(4) == 0 {
		n = 2 + rng.Intn(2)
	}
	for i := 0; i < n; i++ {
		e := cronExprPool[rng.Intn(len(cronExprPool))]
		for !c.O.HashNames && strings.Contains(e, "H") {
			e = cronExprPool[rng.Intn(len(cronExprPool))] // H fields need cronHashNames
		}
		s.Exprs = append(s.Exprs, e)
	}
	now := ctick(c.W.Clk.Now())
	if rng.Intn(4) == 0 {
		s.Nbf = now + rng.Intn(8) - 2
		if s.Nbf < 0 {
			s.Nbf = 0
		}
	}
	if rng.Intn(5) == 0 {
		s.Naf = now + 3 + rng.Intn(15)
	}
	return s
}

type CRSummary struct {
	Runs        int            `json:"runs"`
	Lines       int            `json:"lines"`
	Steps       int            `json:"steps"`
	Requests    int            `json:"requests"`
	Diverged    int            `json:"diverged"`
	DivergedAt  map[string]int `json:"diverged_at"`
	Labels      map[string]int `json:"labels"`
	DrainFailed int            `json:"drain_failed"`
	Faults      int            `json:"faults"`
	Fired       int            `json:"fired"`
	Compared    int            `json:"compared"`
	Drift       int            `json:"drift"`
	DriftAt     map[string]int `json:"drift_at"`
}

// matches compares the specification's digest with the real state.
func (c *CR) matches(e *CExp) bool {
	s := c.State()
	if len(s.Jobs) != e.Jobs || len(s.Wq) != e.Wq || len(s.Retry) != e.Rt || s.Chan != e.Ch {
		return false
	}
	for i, h := range e.H {
		n := jcName(i + 1)
		got := -1
		for k, hn := range s.HNames {
			if hn == n {
				got = s.HPrio[k]
			}
		}
		if (h < 0) != (got < 0) || (h >= 0 && got != h*60) {
			return false
		}
	}
	return true
}

func CronMain(args []string) (interface{}, error) {
	fs := flag.NewFlagSet("cron", flag.ContinueOnError)
	mode := fs.String("mode", "random", "random | replay")
	seed := fs.Int64("seed", 1, "seed")
	runs := fs.Int("runs", 50, "random runs")
	steps := fs.Int("steps", 80, "steps per run")
	out := fs.String("out", "", "trace output")
	sched := fs.String("sched", "", "schedules file")
	std := fs.Bool("std", false, "random mode: only the specification's minute-step schedules, whole-minute clock")
	twin := fs.Bool("twin", false, "random mode: fault-only workload; every run is repeated without its faults and the outcomes are compared (C20)")
	system := fs.Bool("system", false, "random mode: compose with the real job queue and jobconfig controllers")
	if err := fs.Parse(args); err != nil {
		return nil, err
	}
	f, err := os.Create(*out)
	if err != nil {
		return nil, err
	}
	defer f.Close()
	bw := bufio.NewWriterSize(f, 1<<20)
	defer bw.Flush()
	tr := sw.NewTracer(bw)
	sum := &CRSummary{DivergedAt: map[string]int{}, DriftAt: map[string]int{}, Labels: map[string]int{}}
	rng := rand.New(rand.NewSource(*seed))
	apply := func(c *CR, l Label) bool {
		nf := len(c.fired)
		_ = nf
		if !c.Apply(l) {
			return false
		}
		sum.Steps++
		sum.Labels[l.A]++
		if l.F != "" && l.F != "ok" {
			sum.Faults++
		}
		return true
	}
	switch *mode {
	case "random":
		for r := 0; r < *runs; r++ {
			o := CronOpts{NJC: 1 + rng.Intn(4), MaxMissed: []int{-1, 1, 2, 3}[rng.Intn(4)], MaxDownMin: []int{-1, 2, 10}[rng.Intn(3)], HashNames: rng.Intn(3) != 0,
				Format: []string{"", "", "quartz"}[rng.Intn(3)], DefaultTZ: []string{"", "Asia/Singapore", "UTC-02:00"}[rng.Intn(3)]}
			if *std {
				o.Format, o.DefaultTZ = "", ""
			}
			o.System = *system
			c := NewCR(o, tr, r)
			c.emit("Reset", Label{A: "Reset"}, nil, -1, nil)
			pols := []string{"Allow", "Allow", "Forbid", "Enqueue"}
			if *twin {
				pols = []string{"Allow"}
			}
			type twinStep struct {
				L Label
				S *CSched
			}
			var rec []twinStep
			// JobConfigs that exist before the controller starts (the rest are created while it runs)
			for i := 1; i <= o.NJC; i++ {
				if rng.Intn(3) != 0 {
					var s CSched
					if *std {
						s = stdSched(1+rng.Intn(3), false, -1, -1)
					} else {
						s = c.randSched(rng)
					}
					ul := Label{A: "UserSet", C: i, P: pols[rng.Intn(len(pols))]}
					if c.UserSet(ul, s) {
						sum.Steps++
						sum.Labels["UserSet"]++
						sc := s
						rec = append(rec, twinStep{L: ul, S: &sc})
					}
					if rng.Intn(3) == 0 {
						tl := Label{A: "Tick", D: 1 + rng.Intn(3)}
						apply(c, tl)
						rec = append(rec, twinStep{L: tl})
					}
				}
			}
			rec = append(rec, twinStep{L: Label{A: "Boot"}})
			apply(c, Label{A: "Boot"})
			restarts := rng.Intn(3)
			if *twin {
				restarts = 0
			}
			for s := 0; s < *steps; s++ {
				var en []Label
				add := func(l Label, n int) {
					for i := 0; i < n; i++ {
						en = append(en, l)
					}
				}
				w := c.W
				q := c.P.Queues["cron"]
				for wi, wp := range []*sw.Proc{c.P, c.P2} {
					if wp.Stp != nil {
						l := Label{A: "Step", I: wi + 1}
						if rng.Intn(8) == 0 {
							l.F = []string{"error", "conflict", "timeout"}[rng.Intn(3)]
						}
						add(l, 3)
					} else {
						for _, k := range q.Ready() {
							add(Label{A: "SyncBegin", K: cKeyID(k), I: wi + 1}, 2-wi)
						}
					}
				}
				for _, k := range sw.SortedKeys(q.Retries) {
					add(Label{A: "RetryFire", K: cKeyID(k)}, 1)
				}
				for _, n := range []string{"queue", "indep", "jobconfig"} {
					xp := c.xp[n]
					if xp == nil {
						continue
					}
					xq := xp.Queues[c.xq[n]]
					if xp.Stp != nil {
						l := Label{A: "XStep", X: n}
						if rng.Intn(10) == 0 {
							l.F = []string{"error", "conflict", "timeout"}[rng.Intn(3)]
						}
						add(l, 3)
					} else {
						for _, k := range xq.Ready() {
							add(Label{A: "XSyncBegin", X: n, K: cKeyID(k)}, 2)
						}
					}
					for _, k := range sw.SortedKeys(xq.Retries) {
						add(Label{A: "XRetryFire", X: n, K: cKeyID(k)}, 1)
					}
				}
				if w.Inf.JobConfigs.Pending() > 0 {
					add(Label{A: "DeliverJC"}, 4)
					if !*twin && rng.Intn(5) == 0 {
						add(Label{A: "JCWatchBreak"}, 1)
					}
				}
				if w.Inf.Jobs.Pending() > 0 {
					add(Label{A: "DeliverJob"}, 3)
				}
				add(Label{A: "Work"}, 4)
				if ctick(w.Clk.Now()) < cronHorizon-12 {
					d := 1
					if rng.Intn(6) == 0 {
						d = 2 + rng.Intn(7) // a stall
					}
					sa := 0
					if !*std && rng.Intn(3) == 0 {
						sa = rng.Intn(60)
					}
					add(Label{A: "Tick", D: d, Sa: sa}, 4)
				}
				jci := 1 + rng.Intn(o.NJC)
				if rng.Intn(5) == 0 {
					add(Label{A: "UserSet", C: jci, P: pols[rng.Intn(len(pols))]}, 2)
				}
				if !*twin && rng.Intn(25) == 0 {
					add(Label{A: "UserDelete", C: jci}, 1)
				}
				if !*twin && rng.Intn(6) == 0 {
					add(Label{A: "StatusSync", C: jci}, 2)
				}
				if jobs := w.API.List("jobs"); !*twin && len(jobs) > 0 && rng.Intn(4) == 0 {
					gj := jobs[rng.Intn(len(jobs))].(*execution.Job)
					add(Label{A: []string{"JobStart", "JobStart", "JobFinish"}[rng.Intn(3)], K: cKeyID(gj.Namespace + "/" + gj.Name)}, 2)
				}
				if jobs := w.API.List("jobs"); !*twin && len(jobs) > 0 && rng.Intn(10) == 0 {
					gj := jobs[rng.Intn(len(jobs))].(*execution.Job)
					add(Label{A: "JobGone", K: cKeyID(gj.Namespace + "/" + gj.Name)}, 1)
				}
				if restarts > 0 && rng.Intn(40) == 0 {
					add(Label{A: "Restart"}, 1)
				}
				l := en[rng.Intn(len(en))]
				switch l.A {
				case "Restart":
					restarts--
				case "UserSet":
					var s CSched
					if *std {
						nbf, naf := -1, -1
						now := ctick(w.Clk.Now())
						if rng.Intn(4) == 0 {
							nbf = now + rng.Intn(6)
						}
						if rng.Intn(5) == 0 {
							naf = now + 2 + rng.Intn(12)
						}
						s = stdSched(rng.Intn(4), rng.Intn(7) == 0, nbf, naf)
					} else {
						s = c.randSched(rng)
					}
					if c.UserSet(l, s) {
						sum.Steps++
						sum.Labels["UserSet"]++
						sc := s
						rec = append(rec, twinStep{L: l, S: &sc})
					}
					continue
				}
				if !apply(c, l) {
					continue // e.g. StatusSync with nothing to write
				}
				rec = append(rec, twinStep{L: l})
			}
			budget := 800
			if o.System {
				budget = 6000 // every Job also passes through the queue and jobconfig controllers
			}
			okA := c.Finale(budget)
			if !okA {
				sum.DrainFailed++
			}
			if *twin && okA {
				// the same workload without its faults: same labels, fault fields cleared, steps that are not enabled skipped
				// (a retry of a call that did not fail); then drained
				outA := c.outcome()
				saved := [4]interface{}{ktime.Clock, croncontroller.Clock, mutation.Clock, validation.Clock}
				c2 := NewCR(o, sw.NewTracer(bufio.NewWriter(ioDiscard{})), r)
				for _, st := range rec {
					l := st.L
					l.F = ""
					if st.S != nil {
						c2.UserSet(l, *st.S)
					} else {
						c2.Apply(l)
					}
				}
				c2.Finale(budget)
				outB := c2.outcome()
				_ = saved
				ktime.Clock, croncontroller.Clock, mutation.Clock, validation.Clock = c.W.Clk, c.W.Clk, c.W.Clk, c.W.Clk
				c.T.Emit(CLine{Ev: "Twin", L: Label{A: "Twin"}, Run: c.Run, Fired: []CFire{}, Skipped: []CFire{}, Due: []int{}, NewVer: -1, TwinA: outA, TwinB: outB, St: c.State()})
			}
			sum.Runs++
		}
	case "replay":
		sf, err := os.Open(*sched)
		if err != nil {
			return nil, err
		}
		defer sf.Close()
		sc := bufio.NewScanner(sf)
		sc.Buffer(make([]byte, 1<<20), 1<<26)
		r := 0
		for sc.Scan() {
			var s struct {
				Cfg   CronOpts `json:"cfg"`
				Steps []Label  `json:"steps"`
			}
			if err := json.Unmarshal(sc.Bytes(), &s); err != nil {
				return nil, fmt.Errorf("schedule %d: %v", r, err)
			}
			c := NewCR(s.Cfg, tr, r)
			c.emit("Reset", Label{A: "Reset"}, nil, -1, nil)
			for _, l := range s.Steps {
				ce := l.CE
				l.CE = nil
				if !apply(c, l) {
					sum.Diverged++
					sum.DivergedAt[l.A]++
					break
				}
				if ce != nil {
					sum.Compared++
					if !c.matches(ce) {
						sum.Drift++
						sum.DriftAt[l.A]++
						break // the rest of the behaviour is no longer the specification's
					}
				}
			}
			if !c.Finale(800) {
				sum.DrainFailed++
			}
			sum.Runs++
			r++
		}
	default:
		return nil, fmt.Errorf("unknown mode %q", *mode)
	}
	sum.Lines = tr.Lines
	return sum, nil
}
