package drivers

import (
	"bufio"
	"encoding/json"
	"flag"
	"fmt"
	"os"
	"reflect"
	"time"

	corev1 "k8s.io/api/core/v1"
	metav1 "k8s.io/apimachinery/pkg/apis/meta/v1"
	"k8s.io/apimachinery/pkg/util/validation/field"
	ktesting "k8s.io/client-go/testing"

	execution "github.com/furiko-io/furiko/apis/execution/v1alpha1"
	"github.com/furiko-io/furiko/pkg/core/options"
	"github.com/furiko-io/furiko/pkg/execution/mutation"
	"github.com/furiko-io/furiko/pkg/execution/taskexecutor/podtaskexecutor"
	"github.com/furiko-io/furiko/pkg/execution/tasks"
	"github.com/furiko-io/furiko/pkg/execution/util/parallel"
	"github.com/furiko-io/furiko/pkg/execution/validation"
	"github.com/furiko-io/furiko/pkg/utils/jsonyaml"
	"github.com/furiko-io/furiko/pkg/utils/ktime"

	sw "verifharness/simworld"
)

func init() { Modules["options"] = OptionsMain }

// Options module (C18, binding F): every case enumerated by TLC from
// spec/Options_Cases.tla is evaluated on the real option evaluation
// (EvaluateOptions / MakeDefaultOptions, values passing through the same JSON
// decoding the webhook uses) or, for substitution cases, on the real pipeline
// JobConfig -> Job mutating webhook (configName, optionValues, substitutions) ->
// podtaskexecutor.NewPod; each evaluation is repeated to expose order dependence.

type OOpt struct {
	Type     string          `json:"type"`
	Required bool            `json:"required"`
	Def      json.RawMessage `json:"def,omitempty"`
	Trim     bool            `json:"trim,omitempty"`
	Custom   bool            `json:"custom,omitempty"`
	Values   []string        `json:"values,omitempty"`
	Delim    string          `json:"delim,omitempty"`
	Format   string          `json:"format,omitempty"`
	Tv       string          `json:"tv,omitempty"`
	Fv       string          `json:"fv,omitempty"`
}
type OVal struct {
	K string   `json:"k"`
	S string   `json:"s,omitempty"`
	B bool     `json:"b,omitempty"`
	L []string `json:"l,omitempty"`
}
type OCase struct {
	Case string   `json:"case"`
	O    *OOpt    `json:"o,omitempty"`
	Val  *OVal    `json:"val,omitempty"`
	Srcs []string `json:"srcs,omitempty"`
	Vk   string   `json:"vk,omitempty"`
	Ctx  string   `json:"ctx,omitempty"`
}
type OLine struct {
	Ev       string          `json:"ev"`
	Run      int             `json:"run"`
	C        json.RawMessage `json:"c"`
	Accepted bool            `json:"accepted"` // the option spec passes the real validation
	Ok       bool            `json:"ok"`
	V        string          `json:"v"`
	Def      string          `json:"def"`
	Stable   bool            `json:"stable"`
	Args     []string        `json:"args"`
	Err      string          `json:"err"`
	L        Label           `json:"l"`
}

func (o *OOpt) option(name string) execution.Option {
	opt := execution.Option{Type: execution.OptionType(map[string]string{"string": "String", "select": "Select", "multi": "Multi", "bool": "Bool", "date": "Date"}[o.Type]),
		Name: name, Required: o.Required}
	switch o.Type {
	case "string":
		var d string
		_ = json.Unmarshal(o.Def, &d)
		opt.String = &execution.StringOptionConfig{Default: d, TrimSpaces: o.Trim}
	case "select":
		var d string
		_ = json.Unmarshal(o.Def, &d)
		opt.Select = &execution.SelectOptionConfig{Default: d, Values: o.Values, AllowCustom: o.Custom}
	case "multi":
		var d []string
		_ = json.Unmarshal(o.Def, &d)
		opt.Multi = &execution.MultiOptionConfig{Default: d, Values: o.Values, AllowCustom: o.Custom, Delimiter: o.Delim}
	case "bool":
		var d bool
		_ = json.Unmarshal(o.Def, &d)
		opt.Bool = &execution.BoolOptionConfig{Default: d, Format: execution.BoolOptionFormat(o.Format), TrueVal: o.Tv, FalseVal: o.Fv}
	case "date":
		opt.Date = &execution.DateOptionConfig{Format: o.Format}
	}
	return opt
}

func (v *OVal) put(m map[string]interface{}, name string) {
	switch v.K {
	case "null":
		m[name] = nil
	case "str":
		m[name] = v.S
	case "num":
		m[name] = 5
	case "bool":
		m[name] = v.B
	case "list":
		l := []interface{}{}
		for _, s := range v.L {
			l = append(l, s)
		}
		m[name] = l
	case "badlist":
		m[name] = []interface{}{"v1", 5}
	}
}

func evalOption(c OCase) OLine {
	line := OLine{Ev: "Eval", Stable: true, Args: []string{}}
	spec := &execution.OptionSpec{Options: []execution.Option{c.O.option("a")}}
	line.Accepted = len(options.ValidateOptionSpec(spec, field.NewPath("spec", "option"))) == 0
	once := func() (bool, string, string) {
		submitted := map[string]interface{}{}
		c.Val.put(submitted, "a")
		// the same decoding path as Mutator.evaluateOptionValues
		raw, _ := json.Marshal(submitted)
		decoded := map[string]interface{}{}
		if len(submitted) > 0 {
			if err := jsonyaml.UnmarshalString(string(raw), &decoded); err != nil {
				return false, "", "ERR"
			}
		}
		ev, errs := options.EvaluateOptions(decoded, spec, field.NewPath("spec", "optionValues"))
		def, err := options.MakeDefaultOptions(spec)
		d := def["option.a"]
		if err != nil {
			d = "ERR:" + err.Error()
		}
		return len(errs) == 0, ev["option.a"], d
	}
	line.Ok, line.V, line.Def = once()
	for i := 0; i < 10; i++ {
		ok, v, d := once()
		if ok != line.Ok || v != line.V || d != line.Def {
			line.Stable = false
		}
	}
	if !line.Ok {
		line.V = ""
	}
	return line
}

// substitution cases: the whole admission + task creation pipeline
type subWorld struct {
	w   *sw.World
	adm *sw.Admission
	n   int
}

func newSubWorld() *subWorld {
	w := sw.NewWorld(time.Unix(1700000000, 0))
	ktime.Clock = w.Clk
	mutation.Clock = w.Clk
	validation.Clock = w.Clk
	adm, err := sw.NewAdmission(w.Proc("webhook").Context())
	if err != nil {
		panic(err)
	}
	w.API.Admit = adm.Admit
	return &subWorld{w: w, adm: adm}
}

var subTemplateArgs = []string{"${option.a}", "pre-${option.a}-post", "${option.zzz}", "${unknown.var}", "$HOME ${} {x}", "${job.name}", "${task.retry_index}", "${jobconfig.name}|${option.b}"}

func (s *subWorld) evalSubst(c OCase) OLine {
	line := OLine{Ev: "Subst", Stable: true, Args: []string{}}
	has := func(x string) bool {
		for _, y := range c.Srcs {
			if y == x {
				return true
			}
		}
		return false
	}
	val := func(plain string) string {
		if c.Vk == "var" {
			return "${option.b}"
		}
		return plain
	}
	s.n++
	jcName := fmt.Sprintf("jc%d", s.n)
	jc := &execution.JobConfig{ObjectMeta: metav1.ObjectMeta{Name: jcName, Namespace: ns},
		Spec: execution.JobConfigSpec{Concurrency: execution.ConcurrencySpec{Policy: execution.ConcurrencyPolicyAllow},
			Template: execution.JobTemplateSpec{Spec: execution.JobTemplate{TaskTemplate: execution.TaskTemplate{Pod: &execution.PodTemplateSpec{}}}}}}
	jc.Spec.Template.Spec.TaskTemplate.Pod.Spec.Containers = []corev1.Container{{Name: "c", Image: "img:${option.a}", Args: append([]string{}, subTemplateArgs...),
		Env: []corev1.EnvVar{{Name: "A", Value: "${option.a}"}}}}
	opts := []execution.Option{{Type: execution.OptionTypeString, Name: "b", String: &execution.StringOptionConfig{Default: "B"}}}
	if has("default") {
		opts = append(opts, execution.Option{Type: execution.OptionTypeString, Name: "a", String: &execution.StringOptionConfig{Default: val("DEF")}})
	}
	jc.Spec.Option = &execution.OptionSpec{Options: opts}
	if _, err := s.w.API.Direct("user", ktesting.NewCreateAction(sw.JobConfigsGVR, ns, jc)); err != nil {
		line.Err = "jobconfig: " + err.Error()
		return line
	}
	for s.w.Inf.JobConfigs.Deliver() {
	}
	once := func(i int) ([]string, string) {
		job := &execution.Job{ObjectMeta: metav1.ObjectMeta{Name: fmt.Sprintf("%s-j%d", jcName, i), Namespace: ns}, Spec: execution.JobSpec{ConfigName: jcName}}
		if has("value") {
			b, _ := json.Marshal(map[string]interface{}{"a": val("VAL")})
			job.Spec.OptionValues = string(b)
		}
		subs := map[string]string{}
		if has("explicit") {
			subs["option.a"] = val("EXP")
		}
		if c.Ctx == "explicit" {
			subs["job.name"] = "OVERRIDE"
		}
		if len(subs) > 0 {
			job.Spec.Substitutions = subs
		}
		raw, _ := json.Marshal(job)
		out, _, err := s.adm.Raw("jobs", "CREATE", nil, raw)
		if err != nil {
			return nil, "job: " + err.Error()
		}
		var rj execution.Job
		if err := json.Unmarshal(out, &rj); err != nil {
			return nil, err.Error()
		}
		rj.UID = "job-uid"
		pod, err := podtaskexecutor.NewPod(&rj, &corev1.PodTemplateSpec{ObjectMeta: rj.Spec.Template.TaskTemplate.Pod.ObjectMeta, Spec: rj.Spec.Template.TaskTemplate.Pod.Spec},
			tasks.TaskIndex{Retry: 0, Parallel: parallel.GetDefaultIndex()})
		if err != nil {
			return nil, "pod: " + err.Error()
		}
		c0 := pod.Spec.Containers[0]
		res := append([]string{}, c0.Args...)
		res = append(res, c0.Image, c0.Env[0].Value)
		// a second task (the retry) rendered from the SAME Job object, as the controller does
		pod1, err := podtaskexecutor.NewPod(&rj, &corev1.PodTemplateSpec{ObjectMeta: rj.Spec.Template.TaskTemplate.Pod.ObjectMeta, Spec: rj.Spec.Template.TaskTemplate.Pod.Spec},
			tasks.TaskIndex{Retry: 1, Parallel: parallel.GetDefaultIndex()})
		if err != nil {
			return nil, "pod: " + err.Error()
		}
		res = append(res, pod1.Spec.Containers[0].Args[6], pod1.Spec.Containers[0].Args[0])
		// the job name differs per repetition: normalise it
		for k := range res {
			if res[k] == rj.Name {
				res[k] = "<job>"
			}
			if res[k] == jcName+"|B" {
				res[k] = "<jc>|B"
			}
		}
		return res, ""
	}
	var first []string
	for i := 0; i < 25; i++ {
		res, e := once(i)
		if e != "" {
			line.Err = e
			return line
		}
		if i == 0 {
			first = res
		} else if !reflect.DeepEqual(first, res) {
			line.Stable = false
		}
	}
	line.Ok = true
	line.Args = first
	return line
}

func OptionsMain(args []string) (interface{}, error) {
	fs := flag.NewFlagSet("options", flag.ContinueOnError)
	mode := fs.String("mode", "cases", "cases")
	_ = fs.Int64("seed", 1, "seed")
	out := fs.String("out", "", "trace output")
	casesPath := fs.String("cases", "", "cases file")
	if err := fs.Parse(args); err != nil {
		return nil, err
	}
	if *mode != "cases" {
		return nil, fmt.Errorf("options: unknown mode %q", *mode)
	}
	f, err := os.Create(*out)
	if err != nil {
		return nil, err
	}
	defer f.Close()
	bw := bufio.NewWriterSize(f, 1<<20)
	defer bw.Flush()
	tr := sw.NewTracer(bw)
	sum := &PSummary{Labels: map[string]int{}}
	cf, err := os.Open(*casesPath)
	if err != nil {
		return nil, err
	}
	defer cf.Close()
	sc := bufio.NewScanner(cf)
	sc.Buffer(make([]byte, 1<<20), 1<<26)
	var sub *subWorld
	for sc.Scan() {
		var c OCase
		if err := json.Unmarshal(sc.Bytes(), &c); err != nil {
			return nil, err
		}
		var line OLine
		if c.Case == "eval" {
			line = evalOption(c)
		} else {
			if sub == nil {
				sub = newSubWorld()
			}
			line = sub.evalSubst(c)
		}
		line.C = append(json.RawMessage{}, sc.Bytes()...)
		line.Run = sum.Cases
		tr.Emit(line)
		sum.Cases++
		sum.Labels[c.Case]++
	}
	sum.Runs = sum.Cases
	sum.Lines = tr.Lines
	return sum, nil
}
