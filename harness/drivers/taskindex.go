package drivers

import (
	execution "github.com/furiko-io/furiko/apis/execution/v1alpha1"
	jobtasks "github.com/furiko-io/furiko/pkg/execution/tasks"
	"github.com/furiko-io/furiko/pkg/execution/util/parallel"
)

type jobtasksIndex = jobtasks.TaskIndex

// makeTaskIndex returns the task index of attempt r of the i-th parallel index of a Job.
func makeTaskIndex(rj *execution.Job, i, r int) jobtasks.TaskIndex {
	var spec *execution.ParallelismSpec
	if rj.Spec.Template != nil {
		spec = rj.Spec.Template.Parallelism
	}
	idx := parallel.GenerateIndexes(spec)
	if i >= len(idx) {
		i = len(idx) - 1
	}
	return jobtasks.TaskIndex{Retry: int64(r), Parallel: idx[i]}
}
