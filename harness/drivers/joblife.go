package drivers

import (
	"bufio"
	"context"
	"encoding/json"
	"flag"
	"fmt"
	"math/rand"
	"os"
	"sort"
	"strconv"
	"strings"
	"time"

	corev1 "k8s.io/api/core/v1"
	metav1 "k8s.io/apimachinery/pkg/apis/meta/v1"
	"k8s.io/apimachinery/pkg/runtime"
	ktesting "k8s.io/client-go/testing"
	"k8s.io/client-go/tools/record"
	"k8s.io/utils/pointer"

	configv1alpha1 "github.com/furiko-io/furiko/apis/config/v1alpha1"
	executiongroup "github.com/furiko-io/furiko/apis/execution"
	execution "github.com/furiko-io/furiko/apis/execution/v1alpha1"
	"github.com/furiko-io/furiko/pkg/execution/controllers/jobcontroller"
	"github.com/furiko-io/furiko/pkg/execution/taskexecutor/podtaskexecutor"
	jobutil "github.com/furiko-io/furiko/pkg/execution/util/job"
	"github.com/furiko-io/furiko/pkg/execution/validation"
	"github.com/furiko-io/furiko/pkg/runtime/reconciler"
	"github.com/furiko-io/furiko/pkg/utils/ktime"

	sw "verifharness/simworld"
)

func init() { Modules["joblife"] = JobLifeMain }

// ---- projection (JobLife module) ----

type LRef struct {
	Name  string `json:"name"`
	Idx   int    `json:"idx"`
	Retry int    `json:"retry"`
	Cr    int    `json:"cr"`
	Run   int    `json:"run"`
	Fin   int    `json:"fin"`
	Res   string `json:"res"`
	State string `json:"state"`
	Why   string `json:"why"`   // status.reason
	Dstat string `json:"dstat"` // deletedStatus: "" | result/reason
}
type LJob struct {
	Ex      bool   `json:"ex"`
	Started bool   `json:"started"`
	St      int    `json:"st"`
	Kill    int    `json:"kill"`
	Del     bool   `json:"del"`
	Fz      bool   `json:"fz"`
	Hold    bool   `json:"hold"` // a finalizer other than furiko's is present
	Adm     bool   `json:"adm"`
	Phase   string `json:"phase"`
	State   string `json:"state"`
	Conds   int    `json:"conds"`
	Kind    string `json:"kind"`
	Result  string `json:"result"`
	FinTs   int    `json:"fints"`
	Created int    `json:"created"`
	Running int    `json:"running"`
	Refs    []LRef `json:"refs"`
	Rv      int    `json:"rv"`
	// parallel status counters as reported
	PComplete bool   `json:"pcomplete"`
	PSucc     string `json:"psucc"` // "nil" | "true" | "false"
	HasPar    bool   `json:"haspar"`
}
type LPod struct {
	Name  string `json:"name"`
	Uid   string `json:"uid"`
	Idx   int    `json:"idx"`
	Retry int    `json:"retry"`
	Mine  bool   `json:"mine"`
	Phase string `json:"phase"`
	Oom   bool   `json:"oom"`
	Del   int    `json:"del"`
	Cr    int    `json:"cr"`
	Ran   bool   `json:"ran"`
	Fin   int    `json:"fin"`
}
type LCfg struct {
	N        int    `json:"n"`
	Par      bool   `json:"par"`
	MaxAtt   int    `json:"maxatt"`
	Delay    int    `json:"delay"`
	Strategy string `json:"strategy"`
	PT       int    `json:"pt"`  // effective pending timeout (s), 0 = disabled
	TTL      int    `json:"ttl"` // effective ttl (s)
	FD       int    `json:"fd"`  // effective force-delete timeout, 0 = disabled
	Forbid   bool   `json:"forbid"`
	Foreign  bool   `json:"foreign"` // a foreign object occupies a task name
}
type LState struct {
	Now    int      `json:"now"`
	Job    LJob     `json:"job"`
	JCache LJob     `json:"jcache"`
	Pods   []LPod   `json:"pods"`
	PCache []LPod   `json:"pcache"`
	Jevq   int      `json:"jevq"`
	Pevq   int      `json:"pevq"`
	Wq     bool     `json:"wq"`
	Timer  bool     `json:"timer"`
	Retry  bool     `json:"retry"`
	InSync bool     `json:"insync"`
	Pend   string   `json:"pend"`
	Quiet  bool     `json:"quiet"`
	Succ   []int    `json:"succ"`   // ground truth: indexes with a task that really reached Succeeded
	Ever   []LPod   `json:"ever"`   // every owned pod ever created (name, idx, retry), with its last known API state
	NoKube []string `json:"nokube"` // pods whose kubelet is unresponsive
}
type LLine struct {
	Ev      string   `json:"ev"`
	L       Label    `json:"l"`
	Op      string   `json:"op"`
	Key     string   `json:"key"`
	Err     string   `json:"err"`
	Dels    []string `json:"dels"`  // graceful Pod deletes issued in this segment
	FDels   []string `json:"fdels"` // forced Pod deletes issued in this segment
	Force   bool     `json:"force"`
	Run     int      `json:"run"`
	Faulted bool     `json:"faulted"`
	Cfg     LCfg     `json:"cfg"`
	St      LState   `json:"st"`
}

// JLOpts: one Job under test.
type JLOpts struct {
	N          int  // indexes (1 = may be non-parallel)
	Par        bool // use spec.parallelism even for N = 1
	MaxAtt     int
	Delay      int
	Strategy   string
	JobPT      int // job-level pending timeout: -1 unset, 0 disabled, >0
	CfgPT      int // dynamic config default: -1 unset(900), 0 disabled
	JobTTL     int // -1 unset
	CfgTTL     int // -1 unset (3600)
	CfgFD      int // -1 unset (900), 0 disabled
	Forbid     bool
	Foreign    bool   // a foreign pod occupies the name of attempt 0 of index 0
	PodLagFree bool   // allow the Pod cache to lag behind the Job cache (cache-skew family)
	Fresh      bool   // random scheduler: a pass only begins when both caches are up to date
	Slow       bool   // random scheduler: kubelets are slow to start containers (tasks stay Pending for long)
	Flaky      bool   // random scheduler: nodes go down often
	Delivered  bool   // the Job's add event is already delivered when the run starts (initial state of spec/JobLife.tla)
	ForeignLag bool   // the foreign Pod's add event is still undelivered when the run starts (the controller can hit it before its cache shows it)
	Hold       bool   // the Job is submitted with another controller's finalizer (and without furiko's: the webhook adds that one)
	ForeignBy  string // controller owner of the foreign Pod: "" (ReplicaSet) | "job" (another Job object of the same name) | "none"
}

type JL struct {
	O                        JLOpts
	Cfg                      LCfg
	W                        *sw.World
	T                        *sw.Tracer
	Run                      int
	P                        *sw.Proc
	uid                      string
	gen                      int
	vers                     map[string]int
	vcnt                     int
	ever                     map[string]LPod
	succ                     map[int]bool
	nokube                   map[string]bool
	faulted                  bool
	rejected                 bool
	killed, deleted, started bool
	adm                      *sw.Admission
	admW                     *sw.World
	rekillRefused            int
	hung                     bool // a pass blocked for good: the run is abandoned
}

// admission returns the real webhooks bound to the current world's caches.
func (j *JL) admission() *sw.Admission {
	if j.adm == nil || j.admW != j.W {
		a, err := sw.NewAdmission(j.W.Proc("webhook").Context())
		if err != nil {
			panic(err)
		}
		j.adm, j.admW = a, j.W
	}
	return j.adm
}

const jlName = "j"
const holdFinalizer = "example.com/hold"

func NewJL(o JLOpts, t *sw.Tracer, run int) *JL {
	j := &JL{O: o, T: t, Run: run, vers: map[string]int{}, ever: map[string]LPod{}, succ: map[int]bool{}, nokube: map[string]bool{}}
	j.W = sw.NewWorld(time.Unix(sw.Base+1, 0))
	ktime.Clock = j.W.Clk
	cfgobj := &configv1alpha1.JobExecutionConfig{}
	j.Cfg = LCfg{N: o.N, Par: o.Par || o.N > 1, MaxAtt: o.MaxAtt, Delay: o.Delay, Strategy: o.Strategy, PT: 900, TTL: 3600, FD: 900, Forbid: o.Forbid, Foreign: o.Foreign}
	if o.CfgPT >= 0 {
		cfgobj.DefaultPendingTimeoutSeconds = pointer.Int64(int64(o.CfgPT))
		j.Cfg.PT = o.CfgPT
	}
	if o.CfgTTL >= 0 {
		cfgobj.DefaultTTLSecondsAfterFinished = pointer.Int64(int64(o.CfgTTL))
		j.Cfg.TTL = o.CfgTTL
	}
	if o.CfgFD >= 0 {
		cfgobj.ForceDeleteTaskTimeoutSeconds = pointer.Int64(int64(o.CfgFD))
		j.Cfg.FD = o.CfgFD
	}
	j.W.Cfg.SetConfigs(map[configv1alpha1.ConfigName]runtime.Object{configv1alpha1.JobExecutionConfigName: cfgobj})
	job := &execution.Job{
		ObjectMeta: metav1.ObjectMeta{Name: jlName, Namespace: ns}, // furiko's finalizer is added by the mutating webhook
		Spec: execution.JobSpec{Type: execution.JobTypeAdhoc, Template: &execution.JobTemplate{
			MaxAttempts: pointer.Int64(int64(o.MaxAtt)), RetryDelaySeconds: pointer.Int64(int64(o.Delay)), ForbidTaskForceDeletion: o.Forbid,
			TaskTemplate: execution.TaskTemplate{Pod: &execution.PodTemplateSpec{Spec: corev1.PodSpec{Containers: []corev1.Container{{Name: "c", Image: "x"}}}}},
		}},
	}
	if o.Hold {
		job.Finalizers = []string{holdFinalizer}
	}
	if o.JobPT >= 0 {
		job.Spec.Template.TaskPendingTimeoutSeconds = pointer.Int64(int64(o.JobPT))
		j.Cfg.PT = o.JobPT
	}
	if o.JobTTL >= 0 {
		job.Spec.TTLSecondsAfterFinished = pointer.Int64(int64(o.JobTTL))
		j.Cfg.TTL = o.JobTTL
	}
	if j.Cfg.Par {
		job.Spec.Template.Parallelism = &execution.ParallelismSpec{WithCount: pointer.Int64(int64(o.N)), CompletionStrategy: execution.ParallelCompletionStrategy(o.Strategy)}
	} else {
		j.Cfg.Strategy = "AllSuccessful"
	}
	// the Job is submitted through the real mutating and validating webhooks, as a user's Job would be
	validation.Clock = j.W.Clk
	admitted, err := j.admission().Admit("jobs", "CREATE", nil, job)
	if err != nil {
		panic(err)
	}
	job = admitted.(*execution.Job)
	out, err := j.W.API.Direct("user", ktesting.NewCreateAction(sw.JobsGVR, ns, job))
	if err != nil {
		panic(err)
	}
	j.uid = string(out.(*execution.Job).UID)
	if o.Foreign {
		idx := jobTaskIndex(out.(*execution.Job), 0, 0)
		name, _ := jobutil.GenerateTaskName(jlName, idx)
		tr := true
		owners := []metav1.OwnerReference{{APIVersion: "apps/v1", Kind: "ReplicaSet", Name: "other", UID: "foreign-uid", Controller: &tr}}
		switch o.ForeignBy {
		case "job": // e.g. a Pod left over from an earlier Job object of the same name
			owners = []metav1.OwnerReference{{APIVersion: execution.GroupVersion.String(), Kind: execution.KindJob, Name: jlName, UID: "uid-of-an-earlier-job", Controller: &tr, BlockOwnerDeletion: &tr}}
		case "none":
			owners = nil
		}
		fp := &corev1.Pod{ObjectMeta: metav1.ObjectMeta{Name: name, Namespace: ns, OwnerReferences: owners},
			Spec: corev1.PodSpec{Containers: []corev1.Container{{Name: "c", Image: "y"}}}}
		if _, err := j.W.API.Direct("user", ktesting.NewCreateAction(sw.PodsGVR, ns, fp)); err != nil {
			panic(err)
		}
	}
	j.build()
	if !(o.Foreign && o.ForeignLag) {
		for j.W.Inf.Pods.Deliver() {
		}
	}
	if o.Delivered {
		for j.W.Inf.Jobs.Deliver() {
		}
	}
	return j
}

func (j *JL) build() {
	p := j.W.Proc("job")
	j.P = p
	jc := jobcontroller.NewContextWithRecorder(p.Context(), record.NewFakeRecorder(1<<20))
	q := sw.NewQueue("job")
	jc.VerifSetQueue(q)
	p.Queues["job"] = q
	jobcontroller.NewInformerWorker(jc)
	ctl := reconciler.NewController(jobcontroller.NewReconciler(jc, nil), q)
	p.Work["job"] = ctl.VerifWorkOnce
	if j.gen > 0 {
		j.W.Inf.Pods.Relist(j.W.API.List("pods"))
		j.W.Inf.Jobs.Relist(j.W.API.List("jobs"))
	}
}

func (j *JL) track() {
	for _, e := range j.W.API.Log("jobs") {
		o := e.New.(*execution.Job)
		if _, ok := j.vers[o.ResourceVersion]; !ok {
			j.vcnt++
			j.vers[o.ResourceVersion] = j.vcnt
		}
	}
	for _, o := range j.W.API.List("pods") {
		p := j.projPod(o)
		if p.Mine {
			j.ever[p.Name] = p
			if p.Phase == "Succeeded" && !p.Oom {
				j.succ[p.Idx] = true
			}
		}
	}
}

func tkp(t *metav1.Time) int {
	if t == nil || t.IsZero() {
		return 0
	}
	return sw.Tk(t.Time)
}

func (j *JL) projJob(o runtime.Object) LJob {
	if o == nil {
		return LJob{Refs: []LRef{}, PSucc: "nil"}
	}
	x := o.(*execution.Job)
	p := LJob{Ex: true, Started: !x.Status.StartTime.IsZero(), St: tkp(x.Status.StartTime), Kill: tkp(x.Spec.KillTimestamp), Del: x.DeletionTimestamp != nil,
		Phase: string(x.Status.Phase), State: string(x.Status.State), Created: int(x.Status.CreatedTasks), Running: int(x.Status.RunningTasks),
		Rv: j.vers[x.ResourceVersion], Refs: []LRef{}, PSucc: "nil"}
	for _, f := range x.Finalizers {
		if f == executiongroup.DeleteDependentsFinalizer {
			p.Fz = true
		} else {
			p.Hold = true
		}
	}
	_, p.Adm = jobutil.GetAdmissionErrorMessage(x)
	c := x.Status.Condition
	if c.Queueing != nil {
		p.Conds++
		p.Kind = "Queueing"
	}
	if c.Waiting != nil {
		p.Conds++
		p.Kind = "Waiting"
	}
	if c.Running != nil {
		p.Conds++
		p.Kind = "Running"
	}
	if c.Finished != nil {
		p.Conds++
		p.Kind = "Finished"
		p.Result = string(c.Finished.Result)
		p.FinTs = tkp(&c.Finished.FinishTimestamp)
	}
	if ps := x.Status.ParallelStatus; ps != nil {
		p.HasPar = true
		p.PComplete = ps.Complete
		if ps.Successful != nil {
			p.PSucc = fmt.Sprint(*ps.Successful)
		}
	}
	for _, r := range x.Status.Tasks {
		y := LRef{Name: r.Name, Retry: int(r.RetryIndex), Cr: tkp(&r.CreationTimestamp), Run: tkp(r.RunningTimestamp), Fin: tkp(r.FinishTimestamp),
			Res: string(r.Status.Result), State: string(r.Status.State), Why: r.Status.Reason}
		if r.ParallelIndex != nil && r.ParallelIndex.IndexNumber != nil {
			y.Idx = int(*r.ParallelIndex.IndexNumber)
		}
		if r.DeletedStatus != nil {
			y.Dstat = string(r.DeletedStatus.Result) + "/" + r.DeletedStatus.Reason
		}
		p.Refs = append(p.Refs, y)
	}
	return p
}

func (j *JL) projPod(o runtime.Object) LPod {
	p := o.(*corev1.Pod)
	x := LPod{Name: p.Name, Uid: string(p.UID), Phase: string(p.Status.Phase), Del: tkp(p.DeletionTimestamp), Cr: tkp(&p.CreationTimestamp)}
	if x.Phase == "" {
		x.Phase = "Pending"
	}
	for _, r := range p.OwnerReferences {
		if r.Controller != nil && *r.Controller && string(r.UID) == j.uid {
			x.Mine = true
		}
	}
	if v, ok := p.Labels[podtaskexecutor.LabelKeyTaskRetryIndex]; ok {
		x.Retry, _ = strconv.Atoi(v)
	}
	if v, ok := p.Annotations[podtaskexecutor.AnnotationKeyTaskParallelIndex]; ok {
		var pi execution.ParallelIndex
		if json.Unmarshal([]byte(v), &pi) == nil && pi.IndexNumber != nil {
			x.Idx = int(*pi.IndexNumber)
		}
	}
	for _, cs := range p.Status.ContainerStatuses {
		if cs.State.Running != nil || cs.State.Terminated != nil {
			x.Ran = true
		}
		if t := cs.State.Terminated; t != nil {
			x.Fin = tkp(&t.FinishedAt)
			if t.Reason == "OOMKilled" {
				x.Oom = true
			}
		}
	}
	return x
}

func (j *JL) pods(objs []runtime.Object) []LPod {
	out := []LPod{}
	for _, o := range objs {
		out = append(out, j.projPod(o))
	}
	sort.Slice(out, func(a, b int) bool { return out[a].Name < out[b].Name })
	return out
}

func (j *JL) State() LState {
	j.track()
	w := j.W
	q := j.P.Queues["job"]
	s := LState{Now: w.Now(), Job: j.projJob(w.API.Get("jobs", ns, jlName)), Pods: j.pods(w.API.List("pods")), Succ: []int{}, Ever: []LPod{}, NoKube: []string{}}
	s.JCache = j.projJob(sw.CacheGet(w.Inf.Jobs, ns+"/"+jlName))
	var cached []runtime.Object
	for _, o := range w.Inf.Pods.GetIndexer().List() {
		cached = append(cached, o.(runtime.Object))
	}
	s.PCache = j.pods(cached)
	s.Jevq, s.Pevq = w.Inf.Jobs.Pending(), w.Inf.Pods.Pending()
	k := ns + "/" + jlName
	s.Wq = q.Has(k)
	_, s.Timer = q.Timers[k]
	s.Retry = q.Retries[k]
	s.InSync = j.P.Stp != nil
	s.Pend = "none"
	if j.P.Stp != nil {
		s.Pend = j.P.Stp.Pending().Op()
	}
	for i := range j.succ {
		s.Succ = append(s.Succ, i)
	}
	sort.Ints(s.Succ)
	for _, n := range sw.SortedKeys(j.ever) {
		s.Ever = append(s.Ever, j.ever[n])
	}
	s.NoKube = sw.SortedKeys(j.nokube)
	s.Quiet = !s.InSync && !s.Wq && !s.Retry && s.Jevq == 0 && s.Pevq == 0
	return s
}

func (j *JL) emit(ev string, l Label, seg *sw.Seg) {
	line := LLine{Ev: ev, L: l, Run: j.Run, Cfg: j.Cfg, Dels: []string{}, FDels: []string{}, Faulted: j.faulted}
	if seg != nil {
		for _, d := range seg.Dels {
			line.Dels = append(line.Dels, strings.TrimPrefix(d, ns+"/"))
		}
		for _, d := range seg.FDels {
			line.FDels = append(line.FDels, strings.TrimPrefix(d, ns+"/"))
		}
		line.Force = seg.Force
		if seg.Done != nil {
			line.Op, line.Key, line.Err = seg.Done.Op(), strings.TrimPrefix(seg.Done.Key, ns+"/"), seg.Done.Err
		}
	}
	line.St = j.State()
	j.T.Emit(line)
}

func jobTaskIndex(rj *execution.Job, i, r int) jobtasksIndex {
	return makeTaskIndex(rj, i, r)
}

func (j *JL) jobObj() *execution.Job {
	if o := j.W.API.Get("jobs", ns, jlName); o != nil {
		return o.(*execution.Job)
	}
	return nil
}

func (j *JL) podObj(name string) *corev1.Pod {
	if o := j.W.API.Get("pods", ns, name); o != nil {
		return o.(*corev1.Pod)
	}
	return nil
}

func (j *JL) setPod(name string, f func(p *corev1.Pod)) {
	j.W.API.Mutate("pods", ns, name, func(o runtime.Object) runtime.Object { p := o.(*corev1.Pod); f(p); return p })
}

// Apply executes one label; false = not enabled in the real system.
func (j *JL) Apply(l Label) bool {
	w := j.W
	q := j.P.Queues["job"]
	k := ns + "/" + jlName
	switch l.A {
	case "Start":
		cur := j.jobObj()
		if cur == nil || !cur.Status.StartTime.IsZero() {
			return false
		}
		w.API.Mutate("jobs", ns, jlName, func(o runtime.Object) runtime.Object {
			x := o.(*execution.Job)
			x.Status.StartTime = ktime.Now()
			return x
		})
		j.started = true
	case "Reject": // the queue controller refuses the Job before it starts (concurrency policy Forbid): admission-error annotation
		cur := j.jobObj()
		if cur == nil || !cur.Status.StartTime.IsZero() {
			return false
		}
		if _, adm := jobutil.GetAdmissionErrorMessage(cur); adm {
			return false
		}
		w.API.Mutate("jobs", ns, jlName, func(o runtime.Object) runtime.Object {
			x := o.(*execution.Job)
			jobutil.MarkAdmissionError(x, "concurrency policy forbids exceeding maximum concurrency (1 >= 1)")
			return x
		})
		j.rejected = true
	case "UserKill":
		cur := j.jobObj()
		if cur == nil || cur.Spec.KillTimestamp != nil {
			return false
		}
		kt := metav1.NewTime(time.Unix(sw.Base+int64(w.Now()+l.D), 0))
		cur.Spec.KillTimestamp = &kt
		cur.ResourceVersion = ""
		if _, err := w.API.Direct("user", ktesting.NewUpdateAction(sw.JobsGVR, ns, cur)); err != nil {
			panic(err)
		}
		j.killed = true
	case "UserRekill": // the user moves (D seconds from now) or removes (D = 99) a kill timestamp; the real validating webhook decides
		cur := j.jobObj()
		if cur == nil || cur.Spec.KillTimestamp == nil || cur.Spec.KillTimestamp.Unix() == w.Clk.Now().Unix() {
			return false
		}
		next := cur.DeepCopy()
		if l.D == 99 {
			next.Spec.KillTimestamp = nil
		} else {
			kt := metav1.NewTime(time.Unix(sw.Base+int64(w.Now()+l.D), 0))
			if kt.Equal(cur.Spec.KillTimestamp) {
				return false
			}
			next.Spec.KillTimestamp = &kt
		}
		validation.Clock = w.Clk
		out, err := j.admission().Admit("jobs", "UPDATE", cur, next)
		if err != nil {
			j.rekillRefused++
			l.X = "refused"
			break
		}
		upd := out.(*execution.Job)
		upd.ResourceVersion = ""
		if _, err := w.API.Direct("user", ktesting.NewUpdateAction(sw.JobsGVR, ns, upd)); err != nil {
			panic(err)
		}
	case "ReleaseHold": // the other controller gives up its finalizer on the Job that is being deleted
		cur := j.jobObj()
		if cur == nil || cur.DeletionTimestamp == nil {
			return false
		}
		var keep []string
		for _, f := range cur.Finalizers {
			if f != holdFinalizer {
				keep = append(keep, f)
			}
		}
		if len(keep) == len(cur.Finalizers) {
			return false
		}
		cur.Finalizers = keep
		cur.ResourceVersion = ""
		if _, err := w.API.Direct("user", ktesting.NewUpdateAction(sw.JobsGVR, ns, cur)); err != nil {
			panic(err)
		}
	case "UserDelete":
		cur := j.jobObj()
		if cur == nil || cur.DeletionTimestamp != nil {
			return false
		}
		if _, err := w.API.Direct("user", ktesting.NewDeleteAction(sw.JobsGVR, ns, jlName)); err != nil {
			panic(err)
		}
		j.deleted = true
	case "Kubelet": // K = pod name, X = Running | Succeeded | Failed | OOM
		p := j.podObj(l.K)
		if p == nil || p.Status.Phase == corev1.PodSucceeded || p.Status.Phase == corev1.PodFailed || j.nokube[l.K] {
			return false
		}
		now := metav1.NewTime(w.Clk.Now())
		if l.X == "Running" {
			if p.Status.Phase == corev1.PodRunning {
				return false
			}
			j.setPod(l.K, func(p *corev1.Pod) {
				p.Status.Phase = corev1.PodRunning
				p.Status.StartTime = &now
				p.Status.ContainerStatuses = []corev1.ContainerStatus{{Name: "c", State: corev1.ContainerState{Running: &corev1.ContainerStateRunning{StartedAt: now}}}}
			})
		} else {
			j.setPod(l.K, func(p *corev1.Pod) {
				started := now
				if len(p.Status.ContainerStatuses) > 0 && p.Status.ContainerStatuses[0].State.Running != nil {
					started = p.Status.ContainerStatuses[0].State.Running.StartedAt
				}
				if p.Status.StartTime == nil {
					p.Status.StartTime = &now
				}
				term := &corev1.ContainerStateTerminated{StartedAt: started, FinishedAt: now}
				switch l.X {
				case "Succeeded":
					p.Status.Phase = corev1.PodSucceeded
				case "Failed":
					p.Status.Phase = corev1.PodFailed
					term.ExitCode, term.Reason = 1, "Error"
				case "OOM":
					p.Status.Phase = corev1.PodFailed
					term.ExitCode, term.Reason = 137, "OOMKilled"
				}
				p.Status.ContainerStatuses = []corev1.ContainerStatus{{Name: "c", State: corev1.ContainerState{Terminated: term}}}
			})
		}
	case "KubeletGone": // graceful deletion completes
		p := j.podObj(l.K)
		if p == nil || p.DeletionTimestamp == nil || j.nokube[l.K] {
			return false
		}
		w.API.Mutate("pods", ns, l.K, func(o runtime.Object) runtime.Object { return nil })
	case "NodeDown": // the pod's kubelet stops responding: no status updates, deletion never completes
		if j.podObj(l.K) == nil || j.nokube[l.K] {
			return false
		}
		j.nokube[l.K] = true
	case "ExternalDelete": // somebody removes the pod object outright
		if j.podObj(l.K) == nil {
			return false
		}
		w.API.Mutate("pods", ns, l.K, func(o runtime.Object) runtime.Object { return nil })
	case "Tick":
		d := l.D
		if d == 0 {
			d = 1
		}
		w.Clk.Step(time.Duration(d) * time.Second)
	case "DeliverJob":
		if !j.O.PodLagFree && w.Inf.Pods.Pending() > 0 {
			return false // causal order: the Pod cache is never behind the Job cache
		}
		if !w.Inf.Jobs.Deliver() {
			return false
		}
	case "DeliverPod":
		if !w.Inf.Pods.Deliver() {
			return false
		}
	case "FailDeletes": // the next two Pod deletes of the controller fail (API fault on calls that the harness does not gate)
		w.API.FailPodDeletes = 2
	case "PodWatchBreak": // the Pod watch breaks: undelivered Pod events are lost, the informer lists again (tombstones for vanished Pods)
		if w.Inf.Pods.Pending() == 0 {
			return false
		}
		w.Inf.Pods.Resync(w.API.List("pods"))
	case "TimerFire":
		if _, ok := q.Timers[k]; !ok {
			return false
		}
		q.FireTimer(k)
	case "RetryFire":
		if !q.Retries[k] {
			return false
		}
		q.FireRetry(k)
	case "SyncBegin":
		if j.P.Stp != nil || !q.IsReady(k) {
			return false
		}
		seg := j.P.SyncBegin("job", k)
		j.emit("SyncBegin", l, &seg)
		j.checkHung()
		return true
	case "Step":
		if j.P.Stp == nil {
			return false
		}
		if l.X != "" && j.P.Stp.Pending().Op() != l.X {
			return false
		}
		if l.F == "applied" {
			j.faulted = true
		}
		seg := j.P.Step(faultErr(l.F))
		j.emit("Step", l, &seg)
		j.checkHung()
		return true
	case "CrashRestart":
		w.Crash()
		j.gen++
		j.W = w.Rebirth(fmt.Sprint(j.gen))
		j.build()
	default:
		panic("unknown label " + l.A)
	}
	j.emit(l.A, l, nil)
	return true
}

// checkHung records a pass that blocked for good (it neither ended nor reached an API call): the run is abandoned there.
func (j *JL) checkHung() {
	if j.P.Hung && !j.hung {
		j.hung = true
		j.emit("Hang", Label{A: "Hang"}, nil)
	}
}

func (j *JL) livePods() (live, terminating, all []string) {
	for _, o := range j.W.API.List("pods") {
		p := o.(*corev1.Pod)
		all = append(all, p.Name)
		if p.Status.Phase != corev1.PodSucceeded && p.Status.Phase != corev1.PodFailed && !j.nokube[p.Name] {
			live = append(live, p.Name)
		}
		if p.DeletionTimestamp != nil && !j.nokube[p.Name] {
			terminating = append(terminating, p.Name)
		}
	}
	return
}

// Enabled: steps for the random scheduler.
func (j *JL) Enabled(rng *rand.Rand, maxTime int, faultP float64, applied bool) []Label {
	var out []Label
	w := j.W
	if j.hung {
		return nil
	}
	q := j.P.Queues["job"]
	k := ns + "/" + jlName
	add := func(l Label, n int) {
		for i := 0; i < n; i++ {
			out = append(out, l)
		}
	}
	if j.P.Stp != nil {
		l := Label{A: "Step"}
		if rng.Float64() < faultP {
			fs := []string{"error", "conflict", "timeout"}
			if applied {
				fs = append(fs, "applied")
			}
			l.F = fs[rng.Intn(len(fs))]
			if pend := j.P.Stp.Pending(); pend != nil && pend.Op() == "create/pods" && rng.Intn(4) == 0 {
				l.F = "invalid" // the Pod is refused for good
			}
		}
		add(l, 4)
	} else if q.IsReady(k) && !(j.O.Fresh && (w.Inf.Jobs.Pending() > 0 || w.Inf.Pods.Pending() > 0)) {
		add(Label{A: "SyncBegin"}, 4)
	}
	if w.Inf.Jobs.Pending() > 0 {
		if j.O.PodLagFree || w.Inf.Pods.Pending() == 0 {
			add(Label{A: "DeliverJob"}, 3)
		} else {
			add(Label{A: "DeliverPod"}, 3)
		}
	}
	if w.Inf.Pods.Pending() > 0 {
		add(Label{A: "DeliverPod"}, 3)
		if rng.Intn(12) == 0 {
			add(Label{A: "PodWatchBreak"}, 1)
		}
	}
	if q.Retries[k] {
		add(Label{A: "RetryFire"}, 2)
	}
	if _, ok := q.Timers[k]; ok {
		add(Label{A: "TimerFire"}, 1)
	}
	if w.Now() < maxTime {
		add(Label{A: "Tick"}, 2)
	}
	job := j.jobObj()
	if job != nil && job.Status.StartTime.IsZero() && !j.rejected {
		add(Label{A: "Start"}, 3)
		if rng.Intn(12) == 0 {
			add(Label{A: "Reject"}, 1)
		}
	}
	if job != nil && job.Spec.KillTimestamp == nil && rng.Intn(14) == 0 {
		add(Label{A: "UserKill", D: rng.Intn(4)}, 1)
	}
	if job != nil && job.Spec.KillTimestamp != nil && job.Spec.KillTimestamp.Unix() != j.W.Clk.Now().Unix() && rng.Intn(10) == 0 {
		d := []int{99, 0, 1, 2, 3, 99}[rng.Intn(6)]
		if d == 99 || sw.Base+int64(j.W.Now()+d) != job.Spec.KillTimestamp.Unix() {
			add(Label{A: "UserRekill", D: d}, 1)
		}
	}
	if job != nil && job.DeletionTimestamp == nil && rng.Intn(25) == 0 {
		add(Label{A: "UserDelete"}, 1)
	}
	if live, _, _ := j.livePods(); len(live) >= 2 && j.W.API.FailPodDeletes == 0 {
		// more likely when the controller is about to delete several tasks at once (kill, deletion of the Job)
		stopping := job != nil && (job.Spec.KillTimestamp != nil || job.DeletionTimestamp != nil)
		if (stopping && rng.Intn(3) == 0) || rng.Intn(20) == 0 {
			add(Label{A: "FailDeletes"}, 2)
		}
	}
	if job != nil && job.DeletionTimestamp != nil && j.O.Hold && rng.Intn(4) == 0 {
		for _, f := range job.Finalizers {
			if f == holdFinalizer {
				add(Label{A: "ReleaseHold"}, 1)
			}
		}
	}
	live, term, all := j.livePods()
	for _, n := range live {
		p := j.podObj(n)
		if p.Status.Phase == corev1.PodRunning {
			add(Label{A: "Kubelet", K: n, X: []string{"Succeeded", "Failed", "Failed", "OOM", "Succeeded"}[rng.Intn(5)]}, 2)
		} else {
			if (!j.O.Slow && rng.Intn(4) != 0) || (j.O.Slow && rng.Intn(8) == 0) {
				add(Label{A: "Kubelet", K: n, X: "Running"}, 2)
			}
			if rng.Intn(8) == 0 { // straight to a terminal phase without a Running observation
				add(Label{A: "Kubelet", K: n, X: []string{"Succeeded", "Failed"}[rng.Intn(2)]}, 1)
			}
		}
		if rng.Intn(30) == 0 {
			add(Label{A: "NodeDown", K: n}, 1)
		}
	}
	for _, n := range term {
		add(Label{A: "KubeletGone", K: n}, 2)
	}
	for _, n := range all {
		if rng.Intn(40) == 0 {
			add(Label{A: "ExternalDelete", K: n}, 1)
		}
	}
	return out
}

// Drain: run to quiescence without faults; kubelets honour deletions (unless
// down); then jump the clock past every configured deadline and drain again.
func (j *JL) Drain(budget int) bool {
	jumps := 0
	for n := 0; n < budget; n++ {
		if j.hung {
			return false
		}
		w := j.W
		q := j.P.Queues["job"]
		k := ns + "/" + jlName
		switch {
		case j.P.Stp != nil:
			j.Apply(Label{A: "Step"})
		case w.Inf.Pods.Pending() > 0:
			j.Apply(Label{A: "DeliverPod"})
		case w.Inf.Jobs.Pending() > 0:
			j.Apply(Label{A: "DeliverJob"})
		case q.IsReady(k):
			j.Apply(Label{A: "SyncBegin"})
		case q.Retries[k]:
			j.Apply(Label{A: "RetryFire"})
		default:
			_, term, _ := j.livePods()
			if len(term) > 0 {
				j.Apply(Label{A: "KubeletGone", K: term[0]})
				continue
			}
			// quiescent. Let time pass: next deadline = a few fixed jumps covering every configured timeout
			if jumps >= 6 {
				return true
			}
			if jumps >= 1 {
				// quiet again after the clock moved and the armed re-sync fired: every deadline up to now has been served
				j.emit("Quiet", Label{A: "Quiet"}, nil)
			}
			steps := []int{1, 2, 3, 5, 1000, 4000}
			j.Apply(Label{A: "Tick", D: steps[jumps]})
			jumps++
			if _, ok := q.Timers[k]; ok {
				j.Apply(Label{A: "TimerFire"})
			}
		}
	}
	return false
}

func (j *JL) Finale(budget int) bool {
	if j.hung {
		return false
	}
	if job := j.jobObj(); job != nil && job.Status.StartTime.IsZero() && !j.rejected {
		j.Apply(Label{A: "Start"})
	}
	if !j.Drain(budget) {
		j.emit("DrainFailed", Label{A: "DrainFailed"}, nil)
		return false
	}
	// the other controller releases its finalizer at the latest now
	if j.Apply(Label{A: "ReleaseHold"}) && !j.Drain(budget) {
		j.emit("DrainFailed", Label{A: "DrainFailed"}, nil)
		return false
	}
	j.emit("Final", Label{A: "Final"}, nil)
	return true
}

// ---- CLI ----

type JLSummary struct {
	Runs        int            `json:"runs"`
	Lines       int            `json:"lines"`
	Steps       int            `json:"steps"`
	Diverged    int            `json:"diverged"`
	DivergedAt  map[string]int `json:"diverged_at"`
	Labels      map[string]int `json:"labels"`
	DrainFailed int            `json:"drain_failed"`
	Faults      int            `json:"faults"`
	Compared    int            `json:"compared"` // replayed steps whose resulting abstract state was compared with the specification's
	Drift       int            `json:"drift"`    // ... and differed
	DriftAt     map[string]int `json:"drift_at"` // by step label (first drift of a run only)
	DriftSample []string       `json:"drift_sample"`
}

func randJLOpts(rng *rand.Rand, skew, fresh bool) JLOpts {
	o := JLOpts{N: 1 + rng.Intn(3), MaxAtt: 1 + rng.Intn(3), Delay: []int{0, 0, 2}[rng.Intn(3)], Strategy: []string{"AllSuccessful", "AnySuccessful"}[rng.Intn(2)],
		JobPT: []int{-1, -1, 0, 3}[rng.Intn(4)], CfgPT: []int{-1, 0, 4}[rng.Intn(3)], JobTTL: []int{-1, 0, 4}[rng.Intn(3)], CfgTTL: []int{-1, 6}[rng.Intn(2)],
		CfgFD: []int{-1, 0, 3}[rng.Intn(3)], Forbid: rng.Intn(6) == 0, Foreign: rng.Intn(10) == 0, PodLagFree: skew, Fresh: fresh,
		Slow: rng.Intn(3) == 0, Flaky: rng.Intn(4) == 0, Hold: rng.Intn(5) == 0, ForeignLag: rng.Intn(2) == 0, ForeignBy: []string{"", "job", "none"}[rng.Intn(3)]}
	o.Par = o.N > 1 || rng.Intn(2) == 0
	return o
}

func JobLifeMain(args []string) (interface{}, error) {
	fs := flag.NewFlagSet("joblife", flag.ContinueOnError)
	mode := fs.String("mode", "random", "random | replay")
	suffix := fs.Int("suffix", 0, "replay: seeded random steps appended to every replayed schedule before the drain")
	seed := fs.Int64("seed", 1, "seed")
	runs := fs.Int("runs", 60, "random runs")
	steps := fs.Int("steps", 120, "steps per run")
	out := fs.String("out", "", "trace output")
	sched := fs.String("sched", "", "schedules file")
	applied := fs.Bool("applied", false, "applied-but-error faults")
	skew := fs.Bool("skew", false, "let the Pod cache lag behind the Job cache")
	fresh := fs.Bool("fresh", false, "passes only begin on up-to-date caches")
	crash := fs.Bool("crash", true, "crash/restart")
	faultP := fs.Float64("faultp", 0.06, "fault probability per API call")
	if err := fs.Parse(args); err != nil {
		return nil, err
	}
	f, err := os.Create(*out)
	if err != nil {
		return nil, err
	}
	defer f.Close()
	bw := bufio.NewWriterSize(f, 1<<20)
	defer bw.Flush()
	tr := sw.NewTracer(bw)
	sum := &JLSummary{DivergedAt: map[string]int{}, Labels: map[string]int{}, DriftAt: map[string]int{}}
	rng := rand.New(rand.NewSource(*seed))
	apply := func(j *JL, l Label) bool {
		if !j.Apply(l) {
			return false
		}
		sum.Steps++
		sum.Labels[l.A]++
		if l.F != "" && l.F != "ok" {
			sum.Faults++
		}
		return true
	}
	switch *mode {
	case "random":
		for r := 0; r < *runs; r++ {
			j := NewJL(randJLOpts(rng, *skew, *fresh), tr, r)
			j.emit("Reset", Label{A: "Reset"}, nil)
			maxTime := 4 + rng.Intn(12)
			crashLeft := 0
			if *crash && rng.Intn(3) == 0 {
				crashLeft = 1
			}
			for s := 0; s < *steps; s++ {
				en := j.Enabled(rng, maxTime, *faultP, *applied)
				if crashLeft > 0 && rng.Intn(50) == 0 {
					en = append(en, Label{A: "CrashRestart"})
				}
				if len(en) == 0 {
					break
				}
				l := en[rng.Intn(len(en))]
				if l.A == "CrashRestart" {
					crashLeft--
				}
				if !apply(j, l) {
					return nil, fmt.Errorf("run %d: enabled step %+v refused", r, l)
				}
			}
			if !j.Finale(3000) {
				sum.DrainFailed++
			}
			sum.Runs++
		}
	case "replay":
		sf, err := os.Open(*sched)
		if err != nil {
			return nil, err
		}
		defer sf.Close()
		sc := bufio.NewScanner(sf)
		sc.Buffer(make([]byte, 1<<20), 1<<26)
		r := 0
		for sc.Scan() {
			var s struct {
				Cfg   JLOpts  `json:"cfg"`
				Steps []Label `json:"steps"`
			}
			if err := json.Unmarshal(sc.Bytes(), &s); err != nil {
				return nil, fmt.Errorf("schedule %d: %v", r, err)
			}
			s.Cfg.Delivered = true
			// a directed schedule is run twice: followed by the drain alone, and followed by seeded random steps and the drain
			variants := []int{0}
			if *suffix > 0 {
				variants = []int{0, *suffix}
			}
			for _, nsuffix := range variants {
				j := NewJL(s.Cfg, tr, r)
				j.emit("Reset", Label{A: "Reset"}, nil)
				drifted := false
				for si, l := range s.Steps {
					if l.A == "Kubelet" || l.A == "KubeletGone" || l.A == "ExternalDelete" || l.A == "NodeDown" {
						l.K = j.podName(l.I, l.R)
					}
					exp := l.E
					l.E = nil
					if !apply(j, l) {
						sum.Diverged++
						sum.DivergedAt[l.A]++
						break
					}
					if exp != nil && !drifted {
						got := j.digest()
						sum.Compared++
						if got != *exp {
							drifted = true
							sum.Drift++
							sum.DriftAt[l.A+":"+l.X]++
							if len(sum.DriftSample) < 8 {
								sum.DriftSample = append(sum.DriftSample, fmt.Sprintf("run %d step %d %s %s: spec %+v real %+v", r, si, l.A, l.X, *exp, got))
							}
						}
					}
				}
				// directed schedules: continue from the reached state with seeded random steps before draining
				for k := 0; k < nsuffix; k++ {
					en := j.Enabled(rng, j.W.Now()+3, *faultP, *applied)
					if len(en) == 0 {
						break
					}
					if !apply(j, en[rng.Intn(len(en))]) {
						break
					}
				}
				if !j.Finale(3000) {
					sum.DrainFailed++
				}
				sum.Runs++
				r++
			}
		}
	default:
		return nil, fmt.Errorf("unknown mode %q", *mode)
	}
	sum.Lines = tr.Lines
	_ = context.Background
	return sum, nil
}

// digest projects the real state to the fields of Exp.
func (j *JL) digest() Exp {
	st := j.State()
	e := Exp{Ex: st.Job.Ex, Fin: st.Job.Kind == "Finished", Res: st.Job.Result, Refs: len(st.Job.Refs)}
	for _, p := range st.Pods {
		if p.Mine {
			e.Pods++
			if p.Del != 0 {
				e.Dl++
			}
		}
	}
	return e
}

// podName returns the deterministic task name of attempt r of index i.
func (j *JL) podName(i, r int) string {
	job := j.jobObj()
	if job == nil {
		return ""
	}
	name, _ := jobutil.GenerateTaskName(jlName, makeTaskIndex(job, i, r))
	return name
}
