// Package drivers contains the per-module harness drivers: each builds the real
// controllers of one mechanism inside a simworld.World, exposes the spec's
// actions as steps on the real code, and records one ndjson trace line (event +
// projected abstract state) per step.
package drivers

import (
	"context"
	"fmt"
	"math/rand"
	"sort"
	"strings"
	"time"

	kerrors "k8s.io/apimachinery/pkg/api/errors"
	metav1 "k8s.io/apimachinery/pkg/apis/meta/v1"
	"k8s.io/apimachinery/pkg/runtime"
	"k8s.io/apimachinery/pkg/runtime/schema"
	ktesting "k8s.io/client-go/testing"
	"k8s.io/client-go/tools/record"

	execution "github.com/furiko-io/furiko/apis/execution/v1alpha1"
	"github.com/furiko-io/furiko/pkg/execution/controllers/jobconfigcontroller"
	"github.com/furiko-io/furiko/pkg/execution/controllers/jobqueuecontroller"
	"github.com/furiko-io/furiko/pkg/execution/stores/activejobstore"
	jobutil "github.com/furiko-io/furiko/pkg/execution/util/job"
	"github.com/furiko-io/furiko/pkg/execution/util/jobconfig"
	"github.com/furiko-io/furiko/pkg/runtime/reconciler"
	"github.com/furiko-io/furiko/pkg/utils/ktime"

	sw "verifharness/simworld"
)

// Label is one schedule step / trace event of any module (unused fields are omitted).
type Label struct {
	A  string `json:"a"`
	J  int    `json:"j,omitempty"`
	C  int    `json:"c,omitempty"`
	P  string `json:"p,omitempty"`
	Sa int    `json:"sa,omitempty"`
	S  bool   `json:"s,omitempty"`
	F  string `json:"f,omitempty"`
	D  int    `json:"d,omitempty"`
	K  string `json:"k,omitempty"`
	I  int    `json:"i,omitempty"`
	R  int    `json:"r,omitempty"`
	X  string `json:"x,omitempty"`
	E  *Exp   `json:"e,omitempty"`  // abstract state the specification expects after this step (replay only)
	CE *CExp  `json:"ce,omitempty"` // same, Cron module
}

// CExp is the digest of the Cron specification's state after a step.
type CExp struct {
	H    []int `json:"h"` // next due tick per JobConfig (-1: not in the heap)
	Jobs int   `json:"jobs"`
	Wq   int   `json:"wq"`
	Rt   int   `json:"rt"`
	Ch   int   `json:"ch"`
}

// Exp is the digest of the specification's state after a step, compared with
// the projection of the real state when a TLC-generated behaviour is replayed.
type Exp struct {
	Ex   bool   `json:"ex"`
	Fin  bool   `json:"fin"`
	Res  string `json:"res"`
	Pods int    `json:"pods"`
	Refs int    `json:"refs"`
	Dl   int    `json:"dl"`
}

// ---- projection ----

type JRec struct {
	Ex   bool   `json:"ex"`
	Jc   int    `json:"jc"`
	Pol  string `json:"pol"`
	Sa   int    `json:"sa"`
	St   int    `json:"st"`
	Term bool   `json:"term"`
	Adm  bool   `json:"adm"`
	Admc int    `json:"admc"`
	Rv   int    `json:"rv"`
	Cr   int    `json:"cr"`
	Del  bool   `json:"del"`
	Sch  int    `json:"sch"`
}

var absentJ = JRec{Pol: "Allow", St: -1}

type JCRec struct {
	Rv      int    `json:"rv"`
	Active  []int  `json:"active"`
	Queued  []int  `json:"queued"`
	NActive int    `json:"nactive"`
	NQueued int    `json:"nqueued"`
	LastSch int    `json:"lastSch"`
	LastExe int    `json:"lastExe"`
	State   string `json:"state"`
}

type SyncRec struct {
	Busy bool   `json:"busy"`
	Key  string `json:"key"`
	Pend string `json:"pend"`
}

type JQState struct {
	Now     int              `json:"now"`
	Api     map[string]JRec  `json:"api"`
	Cache   map[string]JRec  `json:"cache"`
	Evq     int              `json:"evq"`
	Storeq  int              `json:"storeq"`
	Jcevq   int              `json:"jcevq"`
	Counter map[string]int   `json:"counter"`
	Wq      map[string]bool  `json:"wq"`
	Timer   map[string]bool  `json:"timer"`
	Retry   map[string]bool  `json:"retry"`
	Iq      []int            `json:"iq"`
	Itimer  []int            `json:"itimer"`
	Iretry  []int            `json:"iretry"`
	Jq      []int            `json:"jq"`
	Jretry  []int            `json:"jretry"`
	Sync    SyncRec          `json:"sync"`
	Isync   SyncRec          `json:"isync"`
	Jsync   SyncRec          `json:"jsync"`
	Jcapi   map[string]JCRec `json:"jcapi"`
	Jccache map[string]JCRec `json:"jccache"`
	MaxC    map[string]int   `json:"maxc"`
	JCSync  bool             `json:"jcsync"`
	Quiet   bool             `json:"quiet"`
}

type JQLine struct {
	Ev    string  `json:"ev"`
	L     Label   `json:"l"`
	Op    string  `json:"op"`   // for Step: the operation that was released
	Err   string  `json:"err"`  // its outcome
	Noop  bool    `json:"noop"` // update that changed nothing
	Run   int     `json:"run"`
	Fault bool    `json:"faulted"` // an applied-but-error fault has been injected earlier in this run
	St    JQState `json:"st"`
}

// JQOpts configures one JobQueue world.
type JQOpts struct {
	NJC        int   // number of JobConfigs (1..2)
	MaxC       []int // maxConcurrency per JobConfig
	StoreLag   bool  // the store's listener lags behind the cache
	JCSync     bool  // run the real jobconfigcontroller too
	JCLag      bool  // JobConfig objects are not delivered to the cache before Jobs are created
	Fifo       bool  // workload profile: one JobConfig at its limit, mostly Enqueue Jobs, no edits (order-sensitive interleavings)
	JobsFirst  bool  // on a restart the Job informer lists (and its handlers run) before the JobConfig informer has listed
	WatchBreak bool  // the Job watch may break (undelivered events lost, re-list with tombstones)
	StatusLag  bool  // workload profile for the jobconfigcontroller: its own status writes reach the JobConfig cache late, Jobs finish unstarted or leave early
	MaxJobs    int
}

// JQ is the JobQueue module world: real activejobstore, jobqueuecontroller (both
// reconcilers), optional jobconfigcontroller.
type JQ struct {
	O                  JQOpts
	W                  *sw.World
	T                  *sw.Tracer
	Run                int
	store              *activejobstore.Store
	storeH             int      // index of the store's listener on the Jobs informer
	qp                 *sw.Proc // per-config reconciler
	ip                 *sw.Proc // independent reconciler (own worker goroutines in the real controller, hence own pass in flight)
	jp                 *sw.Proc
	jcs                []*execution.JobConfig
	names              map[int]string // job id -> name
	ids                map[string]int
	vers               map[string]int // name@rv -> per-object version number
	vcount             map[string]int
	jvers              map[string]int
	jvcount            map[string]int
	lastAPI, lastCache map[int]JRec
	gen                int
	faulted            bool
	touch              int
}

const ns = "default"

func NewJQ(o JQOpts, t *sw.Tracer, run int) *JQ {
	q := &JQ{O: o, T: t, Run: run, names: map[int]string{}, ids: map[string]int{}, vers: map[string]int{}, vcount: map[string]int{},
		jvers: map[string]int{}, jvcount: map[string]int{}, lastAPI: map[int]JRec{}, lastCache: map[int]JRec{}}
	q.W = sw.NewWorld(time.Unix(sw.Base+1, 0))
	ktime.Clock = q.W.Clk
	for c := 1; c <= o.NJC; c++ {
		mc := int64(1)
		if c-1 < len(o.MaxC) {
			mc = int64(o.MaxC[c-1])
		}
		jc := &execution.JobConfig{
			ObjectMeta: metav1.ObjectMeta{Name: fmt.Sprintf("jc%d", c), Namespace: ns},
			Spec:       execution.JobConfigSpec{Concurrency: execution.ConcurrencySpec{Policy: execution.ConcurrencyPolicyEnqueue, MaxConcurrency: &mc}},
		}
		out, err := q.W.API.Direct("user", ktesting.NewCreateAction(sw.JobConfigsGVR, ns, jc))
		if err != nil {
			panic(err)
		}
		q.jcs = append(q.jcs, out.(*execution.JobConfig))
	}
	q.build()
	if !o.JCLag {
		for q.W.Inf.JobConfigs.Deliver() {
		}
		// the queue controller reconciles every added JobConfig once: run those (empty) passes to completion before the run starts
		for pq := q.qp.Queues["perconfig"]; len(pq.Ready()) > 0; {
			q.qp.SyncBegin("perconfig", pq.Ready()[0])
			for q.qp.Stp != nil {
				q.qp.Step(nil)
			}
		}
		// the initial JobConfig adds are synced to completion before the run starts (status.state = Ready)
		for q.jp != nil && len(q.jp.Queues["jobconfig"].Pending()) > 0 {
			q.jp.SyncBegin("jobconfig", q.jp.Queues["jobconfig"].Pending()[0])
			for q.jp.Stp != nil {
				q.jp.Step(nil)
			}
			for q.W.Inf.JobConfigs.Deliver() {
			}
		}
	}
	return q
}

// build constructs the controllers exactly as cmd/execution-controller does
// (NewStore, controllers + handlers, then Recover), on the current world.
func (q *JQ) build() {
	w := q.W
	ctx := w.Proc("store").Context()
	store, err := activejobstore.NewStore(ctx)
	if err != nil {
		panic(err)
	}
	w.Stores.Register(store)
	q.store = store
	w.Store.Real = store
	w.Store.Gated = true

	q.qp = w.Proc("queue")
	rec := record.NewFakeRecorder(1 << 20)
	jq := jobqueuecontroller.NewContextWithRecorder(q.qp.Context(), rec)
	pq, iq := sw.NewQueue("perconfig"), sw.NewQueue("independent")
	jq.VerifSetQueues(pq, iq)
	q.ip = w.Proc("indep")
	q.qp.Queues["perconfig"], q.ip.Queues["independent"] = pq, iq
	jobqueuecontroller.NewInformerWorker(jq)
	ctl := jobqueuecontroller.NewJobControl(q.qp.CS.Furiko().ExecutionV1alpha1(), rec)
	ictl := jobqueuecontroller.NewJobControl(q.ip.CS.Furiko().ExecutionV1alpha1(), rec)
	per := reconciler.NewController(jobqueuecontroller.NewPerConfigReconciler(jq, nil, ctl), pq)
	ind := reconciler.NewController(jobqueuecontroller.NewIndependentReconciler(jq, nil, ictl), iq)
	q.qp.Work["perconfig"] = per.VerifWorkOnce
	q.ip.Work["independent"] = ind.VerifWorkOnce

	if q.O.JCSync {
		q.jp = w.Proc("jobconfig")
		jcc := jobconfigcontroller.NewContextWithRecorder(q.jp.Context(), rec)
		jcq := sw.NewQueue("jobconfig")
		jcc.VerifSetQueue(jcq)
		q.jp.Queues["jobconfig"] = jcq
		jobconfigcontroller.NewInformerWorker(jcc)
		jr := reconciler.NewController(jobconfigcontroller.NewReconciler(jcc, nil), jcq)
		q.jp.Work["jobconfig"] = jr.VerifWorkOnce
	}
	// informers "start": caches relist (no-op on the first build), then the store recovers
	q.storeH = w.Inf.Jobs.NumHandlers()
	if q.gen > 0 {
		if q.O.JobsFirst {
			// no ordering is guaranteed between informers: the handlers are registered before the caches sync
			w.Inf.Jobs.Relist(w.API.List("jobs"))
			w.Inf.JobConfigs.Relist(w.API.List("jobconfigs"))
		} else {
			w.Inf.JobConfigs.Relist(w.API.List("jobconfigs"))
			w.Inf.Jobs.Relist(w.API.List("jobs"))
		}
	}
	if err := store.Recover(context.Background()); err != nil {
		panic(err)
	}
	if q.O.StoreLag {
		w.Inf.Jobs.Lag[q.storeH] = true
	}
}

func (q *JQ) jcIndex(j *execution.Job) int {
	ref := metav1.GetControllerOf(j)
	if ref == nil {
		return 0
	}
	var c int
	fmt.Sscanf(ref.Name, "jc%d", &c)
	return c
}

func (q *JQ) track() {
	for _, e := range q.W.API.Log("jobs") {
		j := e.New.(*execution.Job)
		k := j.Name + "@" + j.ResourceVersion
		if _, ok := q.vers[k]; !ok {
			q.vcount[j.Name]++
			q.vers[k] = q.vcount[j.Name]
		}
	}
	for _, e := range q.W.API.Log("jobconfigs") {
		j := e.New.(*execution.JobConfig)
		k := j.Name + "@" + j.ResourceVersion
		if _, ok := q.jvers[k]; !ok {
			q.jvcount[j.Name]++
			q.jvers[k] = q.jvcount[j.Name]
		}
	}
}

func (q *JQ) proj(o runtime.Object) JRec {
	j := o.(*execution.Job)
	r := JRec{Ex: true, Jc: q.jcIndex(j), Pol: "Allow", St: -1, Rv: q.vers[j.Name+"@"+j.ResourceVersion], Cr: sw.Tk(j.CreationTimestamp.Time), Del: j.DeletionTimestamp != nil}
	if sp := j.Spec.StartPolicy; sp != nil {
		if sp.ConcurrencyPolicy != "" {
			r.Pol = string(sp.ConcurrencyPolicy)
		}
		if sp.StartAfter != nil {
			r.Sa = sw.Tk(sp.StartAfter.Time)
		}
	}
	if st := j.Status.StartTime; st != nil {
		r.St = sw.Tk(st.Time)
	}
	r.Term = j.Status.Phase.IsTerminal()
	var msg string
	msg, r.Adm = jobutil.GetAdmissionErrorMessage(j)
	if r.Adm {
		if i := strings.Index(msg, " has "); i >= 0 {
			fmt.Sscanf(msg[i:], " has %d active", &r.Admc)
		}
	}
	if v, ok := j.Annotations[jobconfig.AnnotationKeyScheduleTime]; ok {
		var u int64
		fmt.Sscan(v, &u)
		r.Sch = int(u - sw.Base)
	}
	return r
}

func (q *JQ) projJC(o runtime.Object) JCRec {
	jc := o.(*execution.JobConfig)
	r := JCRec{Rv: q.jvers[jc.Name+"@"+jc.ResourceVersion], Active: []int{}, Queued: []int{}, NActive: int(jc.Status.Active), NQueued: int(jc.Status.Queued), State: string(jc.Status.State)}
	for _, ref := range jc.Status.ActiveJobs {
		r.Active = append(r.Active, q.ids[ref.Name])
	}
	for _, ref := range jc.Status.QueuedJobs {
		r.Queued = append(r.Queued, q.ids[ref.Name])
	}
	sort.Ints(r.Active)
	sort.Ints(r.Queued)
	if t := jc.Status.LastScheduled; t != nil {
		r.LastSch = sw.Tk(t.Time)
	}
	if t := jc.Status.LastExecuted; t != nil {
		r.LastExe = sw.Tk(t.Time)
	}
	return r
}

func ids(q *JQ, keys []string) []int {
	out := []int{}
	for _, k := range keys {
		out = append(out, q.ids[strings.TrimPrefix(k, ns+"/")])
	}
	sort.Ints(out)
	return out
}

func jcids(keys []string) []int {
	out := []int{}
	for _, k := range keys {
		var c int
		fmt.Sscanf(strings.TrimPrefix(k, ns+"/"), "jc%d", &c)
		out = append(out, c)
	}
	sort.Ints(out)
	return out
}

func pendName(c *sw.Call) string {
	if c == nil {
		return "none"
	}
	switch c.Op() {
	case "store/count":
		return "count"
	case "store/cas":
		return "cas"
	case "store/rollback":
		return "rollback"
	case "update/jobs/status":
		return "start"
	case "update/jobs":
		return "reject"
	case "update/jobconfigs/status":
		return "jcwrite"
	}
	return c.Op()
}

func syncRec(p *sw.Proc, qn string) SyncRec {
	if p == nil || p.Stp == nil || p.StpQ != qn {
		return SyncRec{Pend: "none"}
	}
	return SyncRec{Busy: true, Key: strings.TrimPrefix(p.StpKey, ns+"/"), Pend: pendName(p.Stp.Pending())}
}

func (q *JQ) State() JQState {
	q.track()
	w := q.W
	s := JQState{Now: w.Now(), Api: map[string]JRec{}, Cache: map[string]JRec{}, Counter: map[string]int{}, Wq: map[string]bool{}, Timer: map[string]bool{},
		Retry: map[string]bool{}, Jcapi: map[string]JCRec{}, Jccache: map[string]JCRec{}, MaxC: map[string]int{}}
	for i := 1; i <= q.O.MaxJobs; i++ {
		id := fmt.Sprint(i)
		a, c := absentJ, absentJ
		if n, ok := q.names[i]; ok {
			if o := w.API.Get("jobs", ns, n); o != nil {
				a = q.proj(o)
				q.lastAPI[i] = a
			} else {
				a = q.lastAPI[i]
				a.Ex = false
			}
			if o := sw.CacheGet(w.Inf.Jobs, ns+"/"+n); o != nil {
				c = q.proj(o)
				q.lastCache[i] = c
			} else if lc, ok := q.lastCache[i]; ok {
				c = lc
				c.Ex = false
			}
		}
		s.Api[id], s.Cache[id] = a, c
	}
	s.JCSync = q.jp != nil
	s.Evq = w.Inf.Jobs.Pending()
	s.Jcevq = w.Inf.JobConfigs.Pending()
	s.Storeq = w.Inf.Jobs.Backlog(q.storeH)
	pq, iq := q.qp.Queues["perconfig"], q.ip.Queues["independent"]
	for c, jc := range q.jcs {
		id := fmt.Sprint(c + 1)
		k := ns + "/" + jc.Name
		s.Counter[id] = int(q.store.CountActiveJobsForConfig(jc))
		s.Wq[id] = pq.Has(k)
		_, s.Timer[id] = pq.Timers[k]
		s.Retry[id] = pq.Retries[k]
		s.MaxC[id] = int(jc.Spec.Concurrency.GetMaxConcurrency())
		if o := w.API.Get("jobconfigs", ns, jc.Name); o != nil {
			s.Jcapi[id] = q.projJC(o)
		}
		if o := sw.CacheGet(w.Inf.JobConfigs, k); o != nil {
			s.Jccache[id] = q.projJC(o)
		} else {
			s.Jccache[id] = JCRec{Active: []int{}, Queued: []int{}}
		}
	}
	s.Iq, s.Itimer, s.Iretry = ids(q, iq.Pending()), ids(q, sw.SortedKeys(iq.Timers)), ids(q, sw.SortedKeys(iq.Retries))
	s.Jq, s.Jretry = []int{}, []int{}
	if q.jp != nil {
		jq := q.jp.Queues["jobconfig"]
		s.Jq, s.Jretry = jcids(jq.Pending()), jcids(sw.SortedKeys(jq.Retries))
	}
	s.Sync, s.Isync, s.Jsync = syncRec(q.qp, "perconfig"), syncRec(q.ip, "independent"), syncRec(q.jp, "jobconfig")
	s.Quiet = s.Evq == 0 && s.Storeq == 0 && s.Jcevq == 0 && len(pq.Pending()) == 0 && len(pq.Retries) == 0 && len(s.Iq) == 0 && len(s.Iretry) == 0 &&
		len(s.Jq) == 0 && len(s.Jretry) == 0 && !s.Sync.Busy && !s.Isync.Busy && !s.Jsync.Busy
	return s
}

func (q *JQ) emit(ev string, l Label, seg *sw.Seg) {
	line := JQLine{Ev: ev, L: l, Run: q.Run, Fault: q.faulted}
	if seg != nil && seg.Done != nil {
		line.Op, line.Err, line.Noop = pendName(seg.Done), seg.Done.Err, seg.Done.Noop
	}
	line.St = q.State()
	q.T.Emit(line)
}

func (q *JQ) Reset() { q.emit("Reset", Label{A: "Reset"}, nil) }

// ---- enabled steps ----

func (q *JQ) jobObj(i int) *execution.Job {
	n, ok := q.names[i]
	if !ok {
		return nil
	}
	if o := q.W.API.Get("jobs", ns, n); o != nil {
		return o.(*execution.Job)
	}
	return nil
}

func faultErr(f string) error {
	switch f {
	case "", "ok":
		return nil
	case "conflict":
		return kerrors.NewConflict(execution.Resource("jobs"), "x", fmt.Errorf("injected conflict"))
	case "timeout":
		return kerrors.NewServerTimeout(execution.Resource("jobs"), "update", 1)
	case "invalid": // the API server refuses the object for good (non-retryable): Pod creates become an admission error of the Job
		return kerrors.NewInvalid(schema.GroupKind{Kind: "Pod"}, "x", nil)
	case "applied":
		return sw.AppliedErr{Err: kerrors.NewTimeoutError("injected: request timed out after it was applied", 1)}
	}
	return kerrors.NewInternalError(fmt.Errorf("injected fault"))
}

// Apply executes one label on the real code. It returns false if the step is
// not enabled in the real system (replay divergence); nothing is executed then.
func (q *JQ) Apply(l Label) bool {
	w := q.W
	pq, iq := q.qp.Queues["perconfig"], q.ip.Queues["independent"]
	jcKey := func(c int) string { return fmt.Sprintf("%s/jc%d", ns, c) }
	switch l.A {
	case "UserCreate":
		if _, ok := q.names[l.J]; ok || l.J > q.O.MaxJobs || l.C > len(q.jcs) {
			return false
		}
		name := fmt.Sprintf("j%d", l.J)
		var job *execution.Job
		if l.C > 0 {
			typ := execution.JobTypeAdhoc
			if l.S {
				typ = execution.JobTypeScheduled
			}
			rjc := w.API.Get("jobconfigs", ns, q.jcs[l.C-1].Name).(*execution.JobConfig)
			var err error
			job, err = jobconfig.NewJobFromJobConfig(rjc, typ, w.Clk.Now())
			if err != nil {
				panic(err)
			}
			job.Name = name
		} else {
			job = &execution.Job{ObjectMeta: metav1.ObjectMeta{Name: name, Namespace: ns}}
		}
		job.Spec.StartPolicy = &execution.StartPolicySpec{ConcurrencyPolicy: execution.ConcurrencyPolicy(l.P)}
		if l.Sa > 0 {
			t := metav1.NewTime(time.Unix(sw.Base+int64(l.Sa), 0))
			job.Spec.StartPolicy.StartAfter = &t
		}
		if _, err := w.API.Direct("user", ktesting.NewCreateAction(sw.JobsGVR, ns, job)); err != nil {
			panic(err)
		}
		q.names[l.J], q.ids[name] = name, l.J
	case "Finish":
		j := q.jobObj(l.J)
		if j == nil || j.Status.Phase.IsTerminal() {
			return false
		}
		w.API.Mutate("jobs", ns, j.Name, func(o runtime.Object) runtime.Object {
			x := o.(*execution.Job)
			_, adm := jobutil.GetAdmissionErrorMessage(x)
			switch {
			case adm:
				x.Status.Phase = execution.JobAdmissionError
			case x.Status.StartTime.IsZero() || x.DeletionTimestamp != nil:
				x.Status.Phase = execution.JobKilled
			default:
				x.Status.Phase = execution.JobSucceeded
			}
			return x
		})
	case "Touch":
		j := q.jobObj(l.J)
		if j == nil {
			return false
		}
		q.touch++
		w.API.Mutate("jobs", ns, j.Name, func(o runtime.Object) runtime.Object {
			x := o.(*execution.Job)
			if x.Annotations == nil {
				x.Annotations = map[string]string{}
			}
			x.Annotations["verif/touch"] = fmt.Sprint(q.touch)
			return x
		})
	case "Postpone":
		j := q.jobObj(l.J)
		if j == nil || jobutil.IsStarted(j) || j.Spec.StartPolicy == nil {
			return false
		}
		if l.Sa > 0 {
			t := metav1.NewTime(time.Unix(sw.Base+int64(l.Sa), 0))
			j.Spec.StartPolicy.StartAfter = &t
		} else {
			j.Spec.StartPolicy.StartAfter = nil
		}
		j.ResourceVersion = ""
		if _, err := w.API.Direct("user", ktesting.NewUpdateAction(sw.JobsGVR, ns, j)); err != nil {
			panic(err)
		}
	case "UserDelete":
		j := q.jobObj(l.J)
		if j == nil || j.DeletionTimestamp != nil {
			return false
		}
		if len(j.Finalizers) == 0 { // independent Jobs of this module carry no finalizer: mark, do not remove
			w.API.Mutate("jobs", ns, j.Name, func(o runtime.Object) runtime.Object {
				x := o.(*execution.Job)
				now := metav1.NewTime(w.Clk.Now())
				x.DeletionTimestamp = &now
				x.Finalizers = []string{"verif/hold"}
				return x
			})
		} else if _, err := w.API.Direct("user", ktesting.NewDeleteAction(sw.JobsGVR, ns, j.Name)); err != nil {
			panic(err)
		}
	case "Remove":
		j := q.jobObj(l.J)
		if j == nil {
			return false
		}
		w.API.Mutate("jobs", ns, j.Name, func(o runtime.Object) runtime.Object { return nil })
	case "Tick":
		d := l.D
		if d == 0 {
			d = 1
		}
		w.Clk.Step(time.Duration(d) * time.Second)
	case "Deliver":
		if !w.Inf.Jobs.Deliver() {
			return false
		}
	case "JobWatchBreak": // the Job watch breaks: undelivered Job events are lost, the informer lists again (updates for all, tombstones for vanished Jobs)
		if w.Inf.Jobs.Pending() == 0 || q.O.StoreLag || w.Inf.Jobs.Backlog(q.storeH) > 0 {
			return false
		}
		w.Inf.Jobs.Resync(w.API.List("jobs"))
	case "StoreDeliver":
		if !w.Inf.Jobs.DeliverLagged(q.storeH) {
			return false
		}
	case "JCDeliver":
		if !w.Inf.JobConfigs.Deliver() {
			return false
		}
	case "TimerFire":
		if _, ok := pq.Timers[jcKey(l.C)]; !ok {
			return false
		}
		pq.FireTimer(jcKey(l.C))
	case "RetryFire":
		if !pq.Retries[jcKey(l.C)] {
			return false
		}
		pq.FireRetry(jcKey(l.C))
	case "ITimerFire":
		k := ns + "/" + q.names[l.J]
		if _, ok := iq.Timers[k]; !ok {
			return false
		}
		iq.FireTimer(k)
	case "IRetryFire":
		k := ns + "/" + q.names[l.J]
		if !iq.Retries[k] {
			return false
		}
		iq.FireRetry(k)
	case "JRetryFire":
		if q.jp == nil || !q.jp.Queues["jobconfig"].Retries[jcKey(l.C)] {
			return false
		}
		q.jp.Queues["jobconfig"].FireRetry(jcKey(l.C))
	case "SyncBegin":
		if q.qp.Stp != nil || !pq.IsReady(jcKey(l.C)) {
			return false
		}
		seg := q.qp.SyncBegin("perconfig", jcKey(l.C))
		q.emit("SyncBegin", l, &seg)
		return true
	case "ISyncBegin":
		k := ns + "/" + q.names[l.J]
		if q.ip.Stp != nil || !iq.IsReady(k) {
			return false
		}
		seg := q.ip.SyncBegin("independent", k)
		q.emit("ISyncBegin", l, &seg)
		return true
	case "JSyncBegin":
		if q.jp == nil || q.jp.Stp != nil || !q.jp.Queues["jobconfig"].IsReady(jcKey(l.C)) {
			return false
		}
		seg := q.jp.SyncBegin("jobconfig", jcKey(l.C))
		q.emit("JSyncBegin", l, &seg)
		return true
	case "StepCount", "StepCas", "StepRollback", "StepStart", "StepReject", "IStepStart", "JStepWrite":
		p, qn, want := q.qp, "perconfig", ""
		switch l.A {
		case "StepCount":
			want = "count"
		case "StepCas":
			want = "cas"
		case "StepRollback":
			want = "rollback"
		case "StepStart":
			want = "start"
		case "StepReject":
			want = "reject"
		case "IStepStart":
			p, qn, want = q.ip, "independent", "start"
		case "JStepWrite":
			p, qn, want = q.jp, "jobconfig", "jcwrite"
		}
		if p == nil || p.Stp == nil || p.StpQ != qn || pendName(p.Stp.Pending()) != want {
			return false
		}
		if l.F == "applied" {
			q.faulted = true
		}
		seg := p.Step(faultErr(l.F))
		q.emit(l.A, l, &seg)
		return true
	case "CrashRestart":
		w.Crash()
		q.gen++
		q.W = w.Rebirth(fmt.Sprint(q.gen))
		q.jp = nil
		q.build()
		for i := range q.lastCache { // the relisted cache holds no trace of removed objects
			if la, ok := q.lastAPI[i]; ok && q.jobObj(i) == nil {
				q.lastCache[i] = la
			}
		}
	default:
		panic("unknown label " + l.A)
	}
	q.emit(l.A, l, nil)
	return true
}

// Enabled lists the steps the real system can take now (environment steps
// bounded by the options), for the random scheduler.
func (q *JQ) Enabled(rng *rand.Rand, maxTime int, faultP float64, applied bool) []Label {
	var out []Label
	w := q.W
	pq, iq := q.qp.Queues["perconfig"], q.ip.Queues["independent"]
	add := func(l Label, weight int) {
		for i := 0; i < weight; i++ {
			out = append(out, l)
		}
	}
	next := len(q.names) + 1
	if next <= q.O.MaxJobs {
		owners := []int{}
		for c := 1; c <= len(q.jcs); c++ {
			owners = append(owners, c, c, c)
		}
		owners = append(owners, 0)
		pols := []string{"Allow", "Forbid", "Enqueue", "Enqueue", "Forbid"}
		sas := []int{0, 0, w.Now(), w.Now() + 1, w.Now() + 2, 1}
		if q.O.Fifo {
			owners, pols, sas = []int{1}, []string{"Enqueue", "Enqueue", "Enqueue", "Forbid"}, []int{0}
		}
		add(Label{A: "UserCreate", J: next, C: owners[rng.Intn(len(owners))], P: pols[rng.Intn(len(pols))], Sa: sas[rng.Intn(len(sas))], S: rng.Intn(3) == 0}, 3)
	}
	for i := 1; i < next; i++ {
		j := q.jobObj(i)
		if j == nil {
			continue
		}
		if !j.Status.Phase.IsTerminal() {
			_, adm := jobutil.GetAdmissionErrorMessage(j)
			if jobutil.IsStarted(j) || adm || j.DeletionTimestamp != nil {
				add(Label{A: "Finish", J: i}, 2)
			} else if rng.Intn(10) == 0 || (q.O.StatusLag && rng.Intn(3) == 0) {
				add(Label{A: "Finish", J: i}, 1)
			}
		}
		if q.O.Fifo {
			continue
		}
		if rng.Intn(8) == 0 {
			add(Label{A: "Touch", J: i}, 1)
		}
		if !jobutil.IsStarted(j) && j.Spec.StartPolicy != nil && rng.Intn(6) == 0 {
			sa := []int{0, w.Now(), w.Now() + 1, w.Now() + 3}[rng.Intn(4)]
			cur := 0
			if j.Spec.StartPolicy.StartAfter != nil {
				cur = sw.Tk(j.Spec.StartPolicy.StartAfter.Time)
			}
			if sa != cur {
				add(Label{A: "Postpone", J: i, Sa: sa}, 1)
			}
		}
		if j.DeletionTimestamp == nil && rng.Intn(12) == 0 {
			add(Label{A: "UserDelete", J: i}, 1)
		}
		if (j.DeletionTimestamp != nil && rng.Intn(3) == 0) || rng.Intn(40) == 0 || (q.O.StatusLag && rng.Intn(6) == 0) {
			add(Label{A: "Remove", J: i}, 1)
		}
	}
	if w.Now() < maxTime {
		add(Label{A: "Tick"}, 2)
	}
	if w.Inf.Jobs.Pending() > 0 {
		add(Label{A: "Deliver"}, 4)
		if q.O.WatchBreak && !q.O.StoreLag && w.Inf.Jobs.Backlog(q.storeH) == 0 && rng.Intn(6) == 0 {
			add(Label{A: "JobWatchBreak"}, 1)
		}
	}
	if w.Inf.Jobs.Backlog(q.storeH) > 0 {
		add(Label{A: "StoreDeliver"}, 3)
	}
	if w.Inf.JobConfigs.Pending() > 0 && !(q.O.StatusLag && rng.Intn(4) != 0) {
		add(Label{A: "JCDeliver"}, 3)
	}
	fault := func() string {
		if rng.Float64() < faultP {
			fs := []string{"error", "conflict", "timeout"}
			if applied {
				fs = append(fs, "applied", "applied")
			}
			return fs[rng.Intn(len(fs))]
		}
		return ""
	}
	for c := 1; c <= len(q.jcs); c++ {
		k := fmt.Sprintf("%s/jc%d", ns, c)
		if _, ok := pq.Timers[k]; ok {
			add(Label{A: "TimerFire", C: c}, 1)
		}
		if pq.Retries[k] {
			add(Label{A: "RetryFire", C: c}, 2)
		}
		if q.qp.Stp == nil && pq.IsReady(k) {
			add(Label{A: "SyncBegin", C: c}, 4)
		}
		if q.jp != nil {
			jq := q.jp.Queues["jobconfig"]
			if jq.Retries[k] {
				add(Label{A: "JRetryFire", C: c}, 2)
			}
			if q.jp.Stp == nil && jq.IsReady(k) {
				add(Label{A: "JSyncBegin", C: c}, 3)
			}
		}
	}
	for i := 1; i < next; i++ {
		k := ns + "/" + q.names[i]
		if _, ok := iq.Timers[k]; ok {
			add(Label{A: "ITimerFire", J: i}, 1)
		}
		if iq.Retries[k] {
			add(Label{A: "IRetryFire", J: i}, 2)
		}
		if q.ip.Stp == nil && iq.IsReady(k) {
			add(Label{A: "ISyncBegin", J: i}, 4)
		}
	}
	for _, p := range []*sw.Proc{q.qp, q.ip} {
		if p.Stp != nil {
			if l, ok := q.stepLabel(p); ok {
				if l.A == "StepStart" || l.A == "StepReject" || l.A == "IStepStart" {
					l.F = fault()
				}
				add(l, 5)
			}
		}
	}
	if q.jp != nil && q.jp.Stp != nil {
		if l, ok := q.stepLabel(q.jp); ok {
			l.F = fault()
			if l.F == "applied" {
				l.F = "error"
			}
			add(l, 4)
		}
	}
	return out
}

func (q *JQ) stepLabel(p *sw.Proc) (Label, bool) {
	if p == nil || p.Stp == nil {
		return Label{}, false
	}
	switch pn := pendName(p.Stp.Pending()); {
	case p.StpQ == "independent" && pn == "start":
		return Label{A: "IStepStart"}, true
	case p.StpQ == "jobconfig" && pn == "jcwrite":
		return Label{A: "JStepWrite"}, true
	case pn == "count":
		return Label{A: "StepCount"}, true
	case pn == "cas":
		return Label{A: "StepCas"}, true
	case pn == "rollback":
		return Label{A: "StepRollback"}, true
	case pn == "start":
		return Label{A: "StepStart"}, true
	case pn == "reject":
		return Label{A: "StepReject"}, true
	default:
		panic("unexpected pending operation " + pn + " on " + p.StpQ)
	}
}

// Drain runs the system to quiescence without faults: finish passes, deliver
// events, run queues, fire retries; when nothing is left, move the clock past
// the next armed deadline and fire the timers. budget bounds the steps.
func (q *JQ) Drain(budget int) bool {
	for n := 0; n < budget; n++ {
		w := q.W
		pq, iq := q.qp.Queues["perconfig"], q.ip.Queues["independent"]
		switch {
		case q.qp.Stp != nil:
			l, _ := q.stepLabel(q.qp)
			q.Apply(l)
		case q.ip.Stp != nil:
			l, _ := q.stepLabel(q.ip)
			q.Apply(l)
		case q.jp != nil && q.jp.Stp != nil:
			l, _ := q.stepLabel(q.jp)
			q.Apply(l)
		case w.Inf.JobConfigs.Pending() > 0:
			q.Apply(Label{A: "JCDeliver"})
		case w.Inf.Jobs.Pending() > 0:
			q.Apply(Label{A: "Deliver"})
		case w.Inf.Jobs.Backlog(q.storeH) > 0:
			q.Apply(Label{A: "StoreDeliver"})
		case len(pq.Pending()) > 0:
			q.Apply(Label{A: "SyncBegin", C: jcids(pq.Pending())[0]})
		case len(iq.Pending()) > 0:
			q.Apply(Label{A: "ISyncBegin", J: ids(q, iq.Pending())[0]})
		case q.jp != nil && len(q.jp.Queues["jobconfig"].Pending()) > 0:
			q.Apply(Label{A: "JSyncBegin", C: jcids(q.jp.Queues["jobconfig"].Pending())[0]})
		case len(pq.Retries) > 0:
			q.Apply(Label{A: "RetryFire", C: jcids(sw.SortedKeys(pq.Retries))[0]})
		case len(iq.Retries) > 0:
			q.Apply(Label{A: "IRetryFire", J: ids(q, sw.SortedKeys(iq.Retries))[0]})
		case q.jp != nil && len(q.jp.Queues["jobconfig"].Retries) > 0:
			q.Apply(Label{A: "JRetryFire", C: jcids(sw.SortedKeys(q.jp.Queues["jobconfig"].Retries))[0]})
		default:
			// quiescent; is a deadline still ahead?
			next := 0
			for i := range q.names {
				if j := q.jobObj(i); j != nil && jobutil.IsQueued(j) && j.Spec.StartPolicy != nil && j.Spec.StartPolicy.StartAfter != nil {
					if t := sw.Tk(j.Spec.StartPolicy.StartAfter.Time); t > w.Now() && (next == 0 || t < next) {
						next = t
					}
				}
			}
			if next == 0 {
				return true
			}
			q.Apply(Label{A: "Tick", D: next - w.Now()})
			for _, c := range jcids(sw.SortedKeys(pq.Timers)) {
				q.Apply(Label{A: "TimerFire", C: c})
			}
			for _, j := range ids(q, sw.SortedKeys(iq.Timers)) {
				q.Apply(Label{A: "ITimerFire", J: j})
			}
		}
	}
	return false
}

// Finale drains, marks the quiescent point, then probes: every active Job
// finishes and fresh Enqueue Jobs arrive, so that a corrupted active counter
// becomes visible as an over-admission (C05) or a stuck Job (C06).
func (q *JQ) Finale(budget int) bool {
	ok := q.Drain(budget)
	if !ok {
		q.emit("DrainFailed", Label{A: "DrainFailed"}, nil)
		return false
	}
	q.emit("Quiescent", Label{A: "Quiescent"}, nil)
	for i := 1; i <= len(q.names); i++ {
		if j := q.jobObj(i); j != nil && jobutil.IsActive(j) {
			q.Apply(Label{A: "Finish", J: i})
		}
	}
	ok = q.Drain(budget)
	base := q.O.MaxJobs
	q.O.MaxJobs += 2 * len(q.jcs)
	for c := 1; c <= len(q.jcs); c++ {
		for k := 0; k < 2; k++ {
			base++
			q.Apply(Label{A: "UserCreate", J: base, C: c, P: "Enqueue"})
		}
	}
	ok = q.Drain(budget) && ok
	if !ok {
		q.emit("DrainFailed", Label{A: "DrainFailed"}, nil)
		return false
	}
	q.emit("Final", Label{A: "Final"}, nil)
	return true
}
