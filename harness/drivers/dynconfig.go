package drivers

import (
	"bufio"
	"context"
	"encoding/base64"
	"encoding/json"
	"flag"
	"fmt"
	"math/rand"
	"os"
	"sort"
	"strings"

	corev1 "k8s.io/api/core/v1"
	metav1 "k8s.io/apimachinery/pkg/apis/meta/v1"
	"k8s.io/client-go/kubernetes/fake"

	"github.com/furiko-io/furiko/pkg/runtime/configloader"
	"github.com/furiko-io/furiko/pkg/runtime/controllercontext"

	sw "verifharness/simworld"
)

func init() { Modules["dynconfig"] = DynConfigMain }

// DynConfig module: the real ConfigManager with DefaultsLoader, ConfigMapLoader
// and SecretLoader, read through ContextConfigs.Jobs/JobConfigs/Cron. Informer
// events are delivered synchronously through the verif accessor.

// dcField describes one scalar field of a configuration kind.
type dcField struct {
	Kind, Name, Type string // Type: int | bool | string
	Ptr              bool   // pointer field (nil = unset) or plain value
}

var dcFields = []dcField{
	{"jobs", "defaultTTLSecondsAfterFinished", "int", true},
	{"jobs", "defaultPendingTimeoutSeconds", "int", true},
	{"jobs", "forceDeleteTaskTimeoutSeconds", "int", true},
	{"jobConfigs", "maxEnqueuedJobs", "int", true},
	{"cron", "cronFormat", "string", false},
	{"cron", "cronHashNames", "bool", true},
	{"cron", "cronHashSecondsByDefault", "bool", true},
	{"cron", "cronHashFields", "bool", true},
	{"cron", "defaultTimezone", "string", true},
	{"cron", "maxMissedSchedules", "int", true},
	{"cron", "maxDowntimeThresholdSeconds", "int", false},
}
var dcKinds = []string{"jobs", "jobConfigs", "cron"}

// literal of a value class for a field type; classes: z zero, a, b (two non-zero values), x wrongly typed
func dcLiteral(f dcField, class string) string {
	switch f.Type {
	case "int":
		return map[string]string{"z": "0", "a": "7", "b": "42", "x": `"seven"`}[class]
	case "bool":
		return map[string]string{"z": "false", "a": "true", "b": "true", "x": `"maybe"`}[class]
	default:
		if f.Name == "cronFormat" {
			return map[string]string{"z": `""`, "a": `"quartz"`, "b": `"standard"`, "x": `5`}[class]
		}
		return map[string]string{"z": `""`, "a": `"Asia/Singapore"`, "b": `"UTC+08:00"`, "x": `12`}[class]
	}
}

// DCKind is the content of one configuration kind in a source: absent, garbage (does not parse), or fields -> class.
type DCKind struct {
	State  string            `json:"state"` // absent | garbage | fields
	Fields map[string]string `json:"fields"`
}
type DCLine struct {
	Ev      string                                  `json:"ev"`
	Run     int                                     `json:"run"`
	Src     string                                  `json:"src"`
	Content map[string]DCKind                       `json:"content,omitempty"` // Update: per kind
	Kind    string                                  `json:"kind"`              // Read
	Err     bool                                    `json:"err"`
	Res     map[string]string                       `json:"res,omitempty"`  // Read: field -> literal ("nil" for an unset pointer)
	Def     map[string]map[string]string            `json:"def,omitempty"`  // Reset: the built-in defaults, kind -> field -> literal
	Lits    map[string]map[string]map[string]string `json:"lits,omitempty"` // Reset: kind -> field -> class -> literal
	Faulted bool                                    `json:"faulted"`
	L       Label                                   `json:"l"`
}

type DC struct {
	T   *sw.Tracer
	Run int
	cm  *configloader.ConfigMapLoader
	sec *configloader.SecretLoader
	cfg *controllercontext.ContextConfigs
	rv  int
}

var sharedDC *DC

// NewDC returns the (process-wide) manager with both sources emptied: starting the loaders' informers costs ~0.2 s, so
// one manager serves all runs; emptying the sources and re-reading every kind (EmitReset) makes the defaults the
// last-known-good values again, which is the state of a freshly started manager after its first reads.
func NewDC(t *sw.Tracer, run int) (*DC, error) {
	if sharedDC != nil {
		d := sharedDC
		d.T, d.Run = t, run
		d.rv++
		meta := metav1.ObjectMeta{Namespace: "furiko-system", Name: "execution-dynamic-config", ResourceVersion: fmt.Sprint(d.rv)}
		d.cm.VerifHandleUpdate(&corev1.ConfigMap{ObjectMeta: meta})
		d.sec.VerifHandleUpdate(&corev1.Secret{ObjectMeta: meta})
		return d, nil
	}
	d := &DC{T: t, Run: run}
	sharedDC = d
	client := fake.NewSimpleClientset()
	mgr := configloader.NewConfigManager()
	d.cm = configloader.NewConfigMapLoader(client, "furiko-system", "execution-dynamic-config")
	d.sec = configloader.NewSecretLoader(client, "furiko-system", "execution-dynamic-config")
	mgr.AddConfigLoaders(configloader.NewDefaultsLoader(), d.cm, d.sec)
	d.cfg = controllercontext.NewContextConfigs(mgr)
	if err := d.cfg.Start(context.Background()); err != nil {
		return nil, err
	}
	return d, nil
}

func dcText(kind string, k DCKind) string {
	if k.State == "garbage" {
		return "{ this: is: not [valid"
	}
	var parts []string
	names := make([]string, 0, len(k.Fields))
	for n := range k.Fields {
		names = append(names, n)
	}
	sort.Strings(names)
	for _, n := range names {
		for _, f := range dcFields {
			if f.Kind == kind && f.Name == n {
				parts = append(parts, fmt.Sprintf("%s: %s", n, dcLiteral(f, k.Fields[n])))
			}
		}
	}
	if len(parts) == 0 {
		return "{}"
	}
	return strings.Join(parts, "\n")
}

// Update delivers a new version of the ConfigMap or Secret to its loader.
func (d *DC) Update(src string, content map[string]DCKind, l Label) {
	d.rv++
	meta := metav1.ObjectMeta{Namespace: "furiko-system", Name: "execution-dynamic-config", ResourceVersion: fmt.Sprint(d.rv)}
	if src == "cm" {
		data := map[string]string{}
		for kind, k := range content {
			if k.State != "absent" {
				data[kind] = dcText(kind, k)
			}
		}
		d.cm.VerifHandleUpdate(&corev1.ConfigMap{ObjectMeta: meta, Data: data})
	} else {
		data := map[string][]byte{}
		for kind, k := range content {
			if k.State != "absent" {
				// the loader expects base64 text inside Secret.Data (the repository's own convention, see its tests)
				data[kind] = []byte(base64.StdEncoding.EncodeToString([]byte(dcText(kind, k))))
				if k.State == "garbage" && d.rv%2 == 0 {
					data[kind] = []byte("%%% this is not base64 %%%") // the other way a Secret entry can be unreadable
				}
			}
		}
		d.sec.VerifHandleUpdate(&corev1.Secret{ObjectMeta: meta, Data: data})
	}
	d.T.Emit(DCLine{Ev: "Update", Run: d.Run, Src: src, Content: content, L: l})
}

func lit(v interface{}) string {
	switch x := v.(type) {
	case *int64:
		if x == nil {
			return "nil"
		}
		return fmt.Sprint(*x)
	case *bool:
		if x == nil {
			return "nil"
		}
		return fmt.Sprint(*x)
	case *string:
		if x == nil {
			return "nil"
		}
		return fmt.Sprintf("%q", *x)
	case string:
		return fmt.Sprintf("%q", x)
	case int64:
		return fmt.Sprint(x)
	}
	return "?"
}

func (d *DC) read(kind string) (map[string]string, error) {
	res := map[string]string{}
	switch kind {
	case "jobs":
		c, err := d.cfg.Jobs()
		if err != nil {
			return nil, err
		}
		res["defaultTTLSecondsAfterFinished"] = lit(c.DefaultTTLSecondsAfterFinished)
		res["defaultPendingTimeoutSeconds"] = lit(c.DefaultPendingTimeoutSeconds)
		res["forceDeleteTaskTimeoutSeconds"] = lit(c.ForceDeleteTaskTimeoutSeconds)
	case "jobConfigs":
		c, err := d.cfg.JobConfigs()
		if err != nil {
			return nil, err
		}
		res["maxEnqueuedJobs"] = lit(c.MaxEnqueuedJobs)
	case "cron":
		c, err := d.cfg.Cron()
		if err != nil {
			return nil, err
		}
		res["cronFormat"] = lit(c.CronFormat)
		res["cronHashNames"] = lit(c.CronHashNames)
		res["cronHashSecondsByDefault"] = lit(c.CronHashSecondsByDefault)
		res["cronHashFields"] = lit(c.CronHashFields)
		res["defaultTimezone"] = lit(c.DefaultTimezone)
		res["maxMissedSchedules"] = lit(c.MaxMissedSchedules)
		res["maxDowntimeThresholdSeconds"] = lit(c.MaxDowntimeThresholdSeconds)
	}
	return res, nil
}

func (d *DC) Read(kind string, l Label) {
	res, err := d.read(kind)
	if res == nil {
		res = map[string]string{}
	}
	d.T.Emit(DCLine{Ev: "Read", Run: d.Run, Kind: kind, Err: err != nil, Res: res, L: l})
}

// Reset line: the defaults as the real DefaultsLoader serves them (read before any update) and the literal table.
func (d *DC) EmitReset() {
	def := map[string]map[string]string{}
	for _, k := range dcKinds {
		res, err := d.read(k)
		if err != nil {
			panic(err)
		}
		def[k] = res
	}
	lits := map[string]map[string]map[string]string{}
	for _, f := range dcFields {
		if lits[f.Kind] == nil {
			lits[f.Kind] = map[string]map[string]string{}
		}
		lits[f.Kind][f.Name] = map[string]string{}
		for _, c := range []string{"z", "a", "b"} {
			v := dcLiteral(f, c)
			if f.Type != "string" {
				v = strings.Trim(v, `"`)
			}
			lits[f.Kind][f.Name][c] = v
		}
	}
	d.T.Emit(DCLine{Ev: "Reset", Run: d.Run, Def: def, Lits: lits})
}

type DCSummary struct {
	Runs     int            `json:"runs"`
	Lines    int            `json:"lines"`
	Steps    int            `json:"steps"`
	Diverged int            `json:"diverged"`
	Labels   map[string]int `json:"labels"`
}

// abstract field names of the specification -> concrete fields (replay): kind k, field f1/f2/f3
var dcAbstract = map[string][]string{
	"jobs":       {"defaultTTLSecondsAfterFinished", "forceDeleteTaskTimeoutSeconds", "defaultPendingTimeoutSeconds"},
	"jobConfigs": {"maxEnqueuedJobs"},
	"cron":       {"maxDowntimeThresholdSeconds", "cronHashNames", "cronFormat", "defaultTimezone", "maxMissedSchedules", "cronHashFields", "cronHashSecondsByDefault"},
}

func DynConfigMain(args []string) (interface{}, error) {
	fs := flag.NewFlagSet("dynconfig", flag.ContinueOnError)
	mode := fs.String("mode", "random", "random | replay")
	seed := fs.Int64("seed", 1, "seed")
	runs := fs.Int("runs", 50, "random runs")
	steps := fs.Int("steps", 30, "steps per run")
	out := fs.String("out", "", "trace output")
	sched := fs.String("sched", "", "schedules file")
	if err := fs.Parse(args); err != nil {
		return nil, err
	}
	f, err := os.Create(*out)
	if err != nil {
		return nil, err
	}
	defer f.Close()
	bw := bufio.NewWriterSize(f, 1<<20)
	defer bw.Flush()
	tr := sw.NewTracer(bw)
	sum := &DCSummary{Labels: map[string]int{}}
	rng := rand.New(rand.NewSource(*seed))
	switch *mode {
	case "random":
		for r := 0; r < *runs; r++ {
			d, err := NewDC(tr, r)
			if err != nil {
				return nil, err
			}
			d.EmitReset()
			pGarbage, pBad := rng.Intn(4), rng.Intn(4) // 0: never in this run
			for s := 0; s < *steps; s++ {
				if rng.Intn(2) == 0 {
					kind := dcKinds[rng.Intn(len(dcKinds))]
					d.Read(kind, Label{A: "Read", K: kind})
					sum.Labels["Read"]++
				} else {
					content := map[string]DCKind{}
					for _, k := range dcKinds {
						switch {
						case rng.Intn(4) == 0:
							content[k] = DCKind{State: "absent", Fields: map[string]string{}}
						case pGarbage > 0 && rng.Intn(3*pGarbage+2) == 0:
							content[k] = DCKind{State: "garbage", Fields: map[string]string{}}
						default:
							fl := map[string]string{}
							for _, f := range dcFields {
								if f.Kind == k && rng.Intn(2) == 0 {
									c := []string{"z", "z", "a", "b"}[rng.Intn(4)]
									if pBad > 0 && rng.Intn(5*pBad) == 0 {
										c = "x"
									}
									fl[f.Name] = c
								}
							}
							content[k] = DCKind{State: "fields", Fields: fl}
						}
					}
					src := []string{"cm", "sec"}[rng.Intn(2)]
					d.Update(src, content, Label{A: "Update", X: src})
					sum.Labels["Update"]++
				}
				sum.Steps++
			}
			for _, k := range dcKinds {
				d.Read(k, Label{A: "Read", K: k})
			}
			sum.Runs++
		}
	case "replay":
		sf, err := os.Open(*sched)
		if err != nil {
			return nil, err
		}
		defer sf.Close()
		sc := bufio.NewScanner(sf)
		sc.Buffer(make([]byte, 1<<20), 1<<26)
		r := 0
		for sc.Scan() {
			var s struct {
				Steps []struct {
					A string                     `json:"a"`
					X string                     `json:"x"`
					K string                     `json:"k"`
					C map[string]json.RawMessage `json:"c"`
				} `json:"steps"`
			}
			if err := json.Unmarshal(sc.Bytes(), &s); err != nil {
				return nil, fmt.Errorf("schedule %d: %v", r, err)
			}
			d, err := NewDC(tr, r)
			if err != nil {
				return nil, err
			}
			d.EmitReset()
			// rotate which concrete fields stand for the specification's abstract fields
			rot := r
			for _, st := range s.Steps {
				switch st.A {
				case "Read":
					d.Read(st.K, Label{A: "Read", K: st.K})
				case "Update":
					content := map[string]DCKind{}
					for _, k := range dcKinds {
						raw, ok := st.C[k]
						if !ok {
							content[k] = DCKind{State: "absent", Fields: map[string]string{}}
							continue
						}
						var str string
						if json.Unmarshal(raw, &str) == nil {
							content[k] = DCKind{State: str, Fields: map[string]string{}}
							continue
						}
						var fl map[string]string
						if err := json.Unmarshal(raw, &fl); err != nil {
							return nil, fmt.Errorf("schedule %d: bad content %s", r, raw)
						}
						conc := map[string]string{}
						names := dcAbstract[k]
						for af, c := range fl {
							if c == "u" {
								continue
							}
							var idx int
							fmt.Sscanf(af, "f%d", &idx)
							conc[names[(idx-1+rot)%len(names)]] = c
						}
						content[k] = DCKind{State: "fields", Fields: conc}
					}
					d.Update(st.X, content, Label{A: "Update", X: st.X})
				}
				sum.Steps++
				sum.Labels[st.A]++
			}
			sum.Runs++
			r++
		}
	}
	sum.Lines = tr.Lines
	return sum, nil
}
