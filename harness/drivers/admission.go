package drivers

import (
	"bufio"
	"context"
	"encoding/json"
	"flag"
	"fmt"
	"os"
	"sort"
	"time"

	jsonpatch "github.com/evanphx/json-patch"
	admissionv1 "k8s.io/api/admission/v1"
	corev1 "k8s.io/api/core/v1"
	metav1 "k8s.io/apimachinery/pkg/apis/meta/v1"
	"k8s.io/apimachinery/pkg/runtime"
	ktesting "k8s.io/client-go/testing"
	"k8s.io/utils/pointer"

	configv1alpha1 "github.com/furiko-io/furiko/apis/config/v1alpha1"
	execution "github.com/furiko-io/furiko/apis/execution/v1alpha1"
	"github.com/furiko-io/furiko/pkg/execution/mutation"
	"github.com/furiko-io/furiko/pkg/execution/taskexecutor/podtaskexecutor"
	"github.com/furiko-io/furiko/pkg/execution/tasks"
	"github.com/furiko-io/furiko/pkg/execution/util/cronschedule"
	"github.com/furiko-io/furiko/pkg/execution/util/jobconfig"
	"github.com/furiko-io/furiko/pkg/execution/util/parallel"
	"github.com/furiko-io/furiko/pkg/execution/validation"
	"github.com/furiko-io/furiko/pkg/execution/webhooks/jobconfigmutatingwebhook"
	"github.com/furiko-io/furiko/pkg/execution/webhooks/jobconfigvalidatingwebhook"
	"github.com/furiko-io/furiko/pkg/execution/webhooks/jobmutatingwebhook"
	"github.com/furiko-io/furiko/pkg/execution/webhooks/jobvalidatingwebhook"
	"github.com/furiko-io/furiko/pkg/utils/ktime"

	sw "verifharness/simworld"
)

func init() { Modules["admission"] = AdmissionMain }

// Admission module (C16, C17; binding F). Every case enumerated by TLC from
// spec/Admission_Cases.tla is concretised to raw AdmissionRequests (optional
// fields really absent) and sent through the real webhooks' Handle functions;
// the returned JSON patch is applied with the library the API server uses.

const admT = int64(1700000000)

type ACase struct {
	Fam string `json:"fam"`
	// A
	Op     string `json:"op,omitempty"`
	Spec   bool   `json:"spec,omitempty"`
	Type   string `json:"type,omitempty"`
	TTL    int    `json:"ttl,omitempty"`
	Tmpl   string `json:"tmpl,omitempty"`
	Att    int    `json:"att,omitempty"`
	Pt     int    `json:"pt,omitempty"`
	Par    string `json:"par,omitempty"`
	Pod    string `json:"pod,omitempty"`
	Fin    string `json:"fin,omitempty"`
	CfgTTL int    `json:"cfgttl,omitempty"`
	CfgPT  int    `json:"cfgpt,omitempty"`
	// B
	CfgName  string `json:"cfgname,omitempty"`
	Policy   string `json:"policy,omitempty"`
	OptVal   bool   `json:"optval,omitempty"`
	Subst    bool   `json:"subst,omitempty"`
	SubstCtx bool   `json:"substctx,omitempty"`
	Label    bool   `json:"label,omitempty"`
	OwnTmpl  bool   `json:"owntmpl,omitempty"`
	OtherUID bool   `json:"otheruid,omitempty"`
	TmplUID  bool   `json:"tmpluid,omitempty"`
	// C
	Old string `json:"old,omitempty"`
	New string `json:"new,omitempty"`
	Lu  string `json:"lu,omitempty"`
	// U
	Field      string `json:"field,omitempty"`
	Changed    bool   `json:"changed,omitempty"`
	Started    bool   `json:"started,omitempty"`
	KillPassed bool   `json:"killpassed,omitempty"`
	How        string `json:"how,omitempty"`
	// P
	Expr  string   `json:"expr,omitempty"`
	Exprs []string `json:"exprs,omitempty"`
	TZ    string   `json:"tz,omitempty"`
	Fmt   string   `json:"fmt,omitempty"`
	Hash  bool     `json:"hash,omitempty"`
	Tl    string   `json:"tl,omitempty"`
	// D
	Pt1 int `json:"pt1,omitempty"`
	Pt2 int `json:"pt2,omitempty"`
}

type AOut struct {
	Type string `json:"type"`
	TTL  int    `json:"ttl"`
	Att  int    `json:"att"`
	Pt   int    `json:"pt"`
	Par  string `json:"par"`
	Pod  string `json:"pod"`
	Fin  string `json:"fin"`
}
type BOut struct {
	Ok       bool   `json:"ok"`
	Owner    string `json:"owner"`
	UIDLabel string `json:"uidlabel"`
	Template string `json:"template"`
	Policy   string `json:"policy"`
	OptA     string `json:"opta"`
	JcName   string `json:"jcname"`
	Cleared  bool   `json:"cfgnamecleared"`
	Fin      string `json:"fin"`
	Label    string `json:"label"`
}
type ALine struct {
	Ev       string          `json:"ev"`
	Run      int             `json:"run"`
	C        json.RawMessage `json:"c"`
	Err      string          `json:"err"`
	PatchOk  bool            `json:"patchok"`  // the patch applies to the raw request and yields exactly the typed defaulted object
	PatchErr string          `json:"patcherr"` //
	Second   bool            `json:"second"`   // re-submitting the defaulted object yields no further change
	A        *AOut           `json:"a,omitempty"`
	A2       *AOut           `json:"a2,omitempty"`
	B        *BOut           `json:"b,omitempty"`
	Stamp    string          `json:"stamp,omitempty"`
	Allowed  bool            `json:"allowed"`
	Flags    map[string]bool `json:"flags,omitempty"`
	Mutated  []string        `json:"mutated"` // informer-cache objects the webhooks wrote into
	L        Label           `json:"l"`
}

type admWorld struct {
	w    *sw.World
	jm   *jobmutatingwebhook.Webhook
	jv   *jobvalidatingwebhook.Webhook
	jcm  *jobconfigmutatingwebhook.Webhook
	jcv  *jobconfigvalidatingwebhook.Webhook
	adm  *sw.Admission
	jc1  *execution.JobConfig
	jc1r *execution.JobConfig // the same JobConfig with the reserved JobConfig-UID label in its template labels
	base *execution.Job
	n    int
}

func newAdmWorld() (*admWorld, error) {
	w := sw.NewWorld(time.Unix(admT, 0))
	ktime.Clock, mutation.Clock, validation.Clock = w.Clk, w.Clk, w.Clk
	a := &admWorld{w: w}
	ctx := w.Proc("webhook").Context()
	var err error
	if a.jm, err = jobmutatingwebhook.NewWebhook(ctx); err != nil {
		return nil, err
	}
	if a.jv, err = jobvalidatingwebhook.NewWebhook(ctx); err != nil {
		return nil, err
	}
	if a.jcm, err = jobconfigmutatingwebhook.NewWebhook(ctx); err != nil {
		return nil, err
	}
	if a.jcv, err = jobconfigvalidatingwebhook.NewWebhook(ctx); err != nil {
		return nil, err
	}
	if a.adm, err = sw.NewAdmission(ctx); err != nil {
		return nil, err
	}
	w.API.Admit = a.adm.Admit
	// the JobConfig of family B
	jc := &execution.JobConfig{ObjectMeta: metav1.ObjectMeta{Name: "jc1", Namespace: ns},
		Spec: execution.JobConfigSpec{Concurrency: execution.ConcurrencySpec{Policy: execution.ConcurrencyPolicyForbid},
			Option: &execution.OptionSpec{Options: []execution.Option{{Type: execution.OptionTypeString, Name: "a", String: &execution.StringOptionConfig{Default: "DEF"}}}},
			Template: execution.JobTemplateSpec{ObjectMeta: metav1.ObjectMeta{Labels: map[string]string{"team": "a"}, Annotations: map[string]string{"note": "x"}},
				Spec: execution.JobTemplate{TaskTemplate: execution.TaskTemplate{Pod: &execution.PodTemplateSpec{}}}}}}
	jc.Spec.Template.Spec.TaskTemplate.Pod.Spec.Containers = []corev1.Container{{Name: "c", Image: "jcimg", Args: []string{"${option.a}"}}}
	if _, err := w.API.Direct("user", ktesting.NewCreateAction(sw.JobConfigsGVR, ns, jc)); err != nil {
		return nil, err
	}
	for w.Inf.JobConfigs.Deliver() {
	}
	a.jc1 = w.API.Get("jobconfigs", ns, "jc1").(*execution.JobConfig)
	jcr := jc.DeepCopy()
	jcr.ObjectMeta = metav1.ObjectMeta{Name: "jc1r", Namespace: ns}
	jcr.Spec.Template.Labels[jobconfig.LabelKeyJobConfigUID] = "00000000-another-jobconfig"
	if _, err := w.API.Direct("user", ktesting.NewCreateAction(sw.JobConfigsGVR, ns, jcr)); err != nil {
		return nil, err
	}
	for w.Inf.JobConfigs.Deliver() {
	}
	a.jc1r = w.API.Get("jobconfigs", ns, "jc1r").(*execution.JobConfig)
	return a, nil
}

func (a *admWorld) setJobCfg(ttl, pt int) {
	cfg := &configv1alpha1.JobExecutionConfig{}
	if ttl >= 0 {
		cfg.DefaultTTLSecondsAfterFinished = pointer.Int64(int64(ttl))
	}
	if pt >= 0 {
		cfg.DefaultPendingTimeoutSeconds = pointer.Int64(int64(pt))
	}
	a.w.Cfg.SetConfigs(map[configv1alpha1.ConfigName]runtime.Object{configv1alpha1.JobExecutionConfigName: cfg})
}

type handlerT interface {
	Handle(ctx context.Context, req *admissionv1.AdmissionRequest) (*admissionv1.AdmissionResponse, error)
}

func admReq(res, kind, op string, oldRaw, newRaw []byte) *admissionv1.AdmissionRequest {
	req := &admissionv1.AdmissionRequest{Operation: admissionv1.Operation(op),
		Kind:     metav1.GroupVersionKind{Group: execution.GroupVersion.Group, Version: execution.GroupVersion.Version, Kind: kind},
		Resource: metav1.GroupVersionResource{Group: execution.GroupVersion.Group, Version: execution.GroupVersion.Version, Resource: res},
		Object:   runtime.RawExtension{Raw: newRaw}}
	if oldRaw != nil {
		req.OldObject = runtime.RawExtension{Raw: oldRaw}
	}
	return req
}

// mutateRaw sends the raw object through a mutating webhook and applies the returned patch to the raw request.
func mutateRaw(h handlerT, res, kind, op string, oldRaw, newRaw []byte) (out []byte, patch []byte, allowed bool, err error) {
	resp, herr := h.Handle(context.Background(), admReq(res, kind, op, oldRaw, newRaw))
	if herr != nil {
		return nil, nil, false, herr
	}
	if !resp.Allowed {
		msg := ""
		if resp.Result != nil {
			msg = resp.Result.Message
		}
		return nil, nil, false, fmt.Errorf("denied: %s", msg)
	}
	out = newRaw
	if len(resp.Patch) > 0 {
		p, perr := jsonpatch.DecodePatch(resp.Patch)
		if perr != nil {
			return nil, resp.Patch, true, fmt.Errorf("undecodable patch: %v", perr)
		}
		out, perr = p.Apply(newRaw)
		if perr != nil {
			return nil, resp.Patch, true, fmt.Errorf("patch does not apply to the submitted object: %v", perr)
		}
	}
	return out, resp.Patch, true, nil
}

func finClass(f []string) string {
	s := append([]string{}, f...)
	sort.Strings(s)
	hasX, hasDD := false, false
	for _, x := range s {
		if x == "example.com/x" {
			hasX = true
		}
		if x == "execution.furiko.io/delete-dependents-finalizer" {
			hasDD = true
		}
	}
	switch {
	case hasX && hasDD:
		return "xdd"
	case hasX:
		return "x"
	case hasDD:
		return "dd"
	}
	return "none"
}
func finList(c string) []interface{} {
	switch c {
	case "dd":
		return []interface{}{"execution.furiko.io/delete-dependents-finalizer"}
	case "x":
		return []interface{}{"example.com/x"}
	case "xdd":
		return []interface{}{"example.com/x", "execution.furiko.io/delete-dependents-finalizer"}
	}
	return nil
}

func projA(rj *execution.Job) *AOut {
	o := &AOut{Type: string(rj.Spec.Type), TTL: -1, Att: -1, Pt: -1, Par: "absent", Pod: "absent", Fin: finClass(rj.Finalizers)}
	if rj.Spec.TTLSecondsAfterFinished != nil {
		o.TTL = int(*rj.Spec.TTLSecondsAfterFinished)
	}
	if t := rj.Spec.Template; t != nil {
		if t.MaxAttempts != nil {
			o.Att = int(*t.MaxAttempts)
		}
		if t.TaskPendingTimeoutSeconds != nil {
			o.Pt = int(*t.TaskPendingTimeoutSeconds)
		}
		if t.Parallelism != nil {
			o.Par = string(t.Parallelism.CompletionStrategy)
		}
		if t.TaskTemplate.Pod != nil {
			o.Pod = string(t.TaskTemplate.Pod.Spec.RestartPolicy)
		}
	}
	return o
}

func (a *admWorld) famA(c ACase) ALine {
	line := ALine{Ev: "A"}
	a.setJobCfg(c.CfgTTL, c.CfgPT)
	a.n++
	meta := map[string]interface{}{"name": fmt.Sprintf("job%d", a.n), "namespace": ns}
	if f := finList(c.Fin); f != nil {
		meta["finalizers"] = f
	}
	obj := map[string]interface{}{"apiVersion": "execution.furiko.io/v1alpha1", "kind": "Job", "metadata": meta}
	if c.Spec {
		spec := map[string]interface{}{}
		if c.Type != "" {
			spec["type"] = c.Type
		}
		if c.TTL >= 0 {
			spec["ttlSecondsAfterFinished"] = c.TTL
		}
		if c.Tmpl == "present" {
			t := map[string]interface{}{}
			if c.Att >= 0 {
				t["maxAttempts"] = c.Att
			}
			if c.Pt >= 0 {
				t["taskPendingTimeoutSeconds"] = c.Pt
			}
			switch c.Par {
			case "nostrat":
				t["parallelism"] = map[string]interface{}{"withCount": 2}
			case "any":
				t["parallelism"] = map[string]interface{}{"withCount": 2, "completionStrategy": "AnySuccessful"}
			}
			podspec := map[string]interface{}{"containers": []interface{}{map[string]interface{}{"name": "c", "image": "img"}}}
			if c.Pod == "onfailure" {
				podspec["restartPolicy"] = "OnFailure"
			}
			t["taskTemplate"] = map[string]interface{}{"pod": map[string]interface{}{"spec": podspec}}
			spec["template"] = t
		}
		obj["spec"] = spec
	}
	raw, _ := json.Marshal(obj)
	var oldRaw []byte
	if c.Op == "UPDATE" {
		oldRaw = raw
	}
	out, _, _, err := mutateRaw(a.jm, "jobs", "Job", c.Op, oldRaw, raw)
	if err != nil {
		line.Err, line.PatchErr = err.Error(), err.Error()
		return line
	}
	var patched execution.Job
	if err := json.Unmarshal(out, &patched); err != nil {
		line.Err = err.Error()
		return line
	}
	line.A = projA(&patched)
	// patch faithfulness: the typed defaulting applied to the typed request, compared with the patched raw request
	var typed execution.Job
	_ = json.Unmarshal(raw, &typed)
	var old *execution.Job
	if c.Op == "UPDATE" {
		old = typed.DeepCopy()
	}
	if res := mutation.NewJobPatcher(a.w.Proc("webhook").Context()).Patch(admissionv1.Operation(c.Op), old, &typed); len(res.Errors) > 0 {
		line.PatchErr = res.Errors.ToAggregate().Error()
	} else {
		b1, _ := json.Marshal(&typed)
		b2, _ := json.Marshal(&patched)
		line.PatchOk = jsonpatch.Equal(b1, b2)
		if !line.PatchOk {
			line.PatchErr = "patched request differs from the defaulted object"
		}
	}
	// second pass
	out2, p2, _, err := mutateRaw(a.jm, "jobs", "Job", c.Op, oldRaw, out)
	if err != nil {
		line.Err = "second pass: " + err.Error()
		return line
	}
	var patched2 execution.Job
	_ = json.Unmarshal(out2, &patched2)
	line.A2 = projA(&patched2)
	line.Second = len(p2) == 0 || jsonpatch.Equal(out, out2)
	return line
}

func (a *admWorld) famB(c ACase) ALine {
	line := ALine{Ev: "B", B: &BOut{}}
	a.setJobCfg(-1, -1)
	a.n++
	meta := map[string]interface{}{"name": fmt.Sprintf("job%d", a.n), "namespace": ns}
	if c.Fin == "x" {
		meta["finalizers"] = finList("x")
	}
	labels := map[string]interface{}{}
	if c.Label {
		labels["team"] = "mine"
	}
	if c.OtherUID {
		labels[jobconfig.LabelKeyJobConfigUID] = "some-other-uid"
		meta["ownerReferences"] = []interface{}{map[string]interface{}{"apiVersion": "execution.furiko.io/v1alpha1", "kind": "JobConfig", "name": "other", "uid": "some-other-uid",
			"controller": true, "blockOwnerDeletion": true}}
	}
	if len(labels) > 0 {
		meta["labels"] = labels
	}
	target := a.jc1
	cfgName := c.CfgName
	if c.TmplUID && c.CfgName == "jc1" {
		target, cfgName = a.jc1r, "jc1r"
	}
	spec := map[string]interface{}{"configName": cfgName}
	if c.Policy == "sa" { // a startPolicy that only postpones the Job (what `furiko run --at` submits): no concurrency policy given
		spec["startPolicy"] = map[string]interface{}{"startAfter": "2033-05-18T03:33:20Z"}
	} else if c.Policy != "" {
		spec["startPolicy"] = map[string]interface{}{"concurrencyPolicy": c.Policy}
	}
	if c.OptVal {
		spec["optionValues"] = `{"a": "VAL"}`
	}
	subs := map[string]interface{}{}
	if c.Subst {
		subs["option.a"] = "EXP"
	}
	if c.SubstCtx {
		subs["jobconfig.name"] = "MINE"
	}
	if len(subs) > 0 {
		spec["substitutions"] = subs
	}
	if c.OwnTmpl {
		spec["template"] = map[string]interface{}{"taskTemplate": map[string]interface{}{"pod": map[string]interface{}{"spec": map[string]interface{}{
			"containers": []interface{}{map[string]interface{}{"name": "mine", "image": "ownimg"}}}}}}
	}
	obj := map[string]interface{}{"apiVersion": "execution.furiko.io/v1alpha1", "kind": "Job", "metadata": meta, "spec": spec}
	raw, _ := json.Marshal(obj)
	out, _, err := a.adm.Raw("jobs", "CREATE", nil, raw)
	if err != nil {
		line.Err = err.Error()
		return line
	}
	var rj execution.Job
	if err := json.Unmarshal(out, &rj); err != nil {
		line.Err = err.Error()
		return line
	}
	b := line.B
	b.Ok = true
	if ref := metav1.GetControllerOf(&rj); ref != nil && len(rj.OwnerReferences) == 1 {
		b.Owner = ref.Name
		if ref.Name == target.Name && ref.UID == target.UID {
			b.Owner = "jc1" // the JobConfig the request named
		}
	}
	switch rj.Labels[jobconfig.LabelKeyJobConfigUID] {
	case string(target.UID):
		b.UIDLabel = "jc1"
	default:
		b.UIDLabel = "other:" + rj.Labels[jobconfig.LabelKeyJobConfigUID]
	}
	if t := rj.Spec.Template; t != nil && t.TaskTemplate.Pod != nil && len(t.TaskTemplate.Pod.Spec.Containers) == 1 && t.TaskTemplate.Pod.Spec.Containers[0].Image == "jcimg" {
		b.Template = "jc1"
	} else {
		b.Template = "other"
	}
	if rj.Spec.StartPolicy != nil {
		b.Policy = string(rj.Spec.StartPolicy.ConcurrencyPolicy)
	}
	b.OptA = rj.Spec.Substitutions["option.a"]
	b.JcName = rj.Spec.Substitutions["jobconfig.name"]
	if b.JcName == target.Name {
		b.JcName = "jc1"
	}
	b.Cleared = rj.Spec.ConfigName == ""
	b.Fin = finClass(rj.Finalizers)
	b.Label = rj.Labels["team"]
	line.Mutated = a.w.Inf.JobConfigs.Mutated()
	return line
}

// family D: a JobConfig stored without template defaults (e.g. from before the webhook was installed); two admissions by
// configName with the dynamic-config pending-timeout default changed in between
func (a *admWorld) famD(c ACase) ALine {
	line := ALine{Ev: "D"}
	a.n++
	name := fmt.Sprintf("jcd%d", a.n)
	jc := a.jc1.DeepCopy()
	jc.ObjectMeta = metav1.ObjectMeta{Name: name, Namespace: ns}
	if _, err := a.w.API.Direct("user", ktesting.NewCreateAction(sw.JobConfigsGVR, ns, jc)); err != nil {
		line.Err = err.Error()
		return line
	}
	a.w.API.Mutate("jobconfigs", ns, name, func(o runtime.Object) runtime.Object {
		x := o.(*execution.JobConfig)
		x.Spec.Template.Spec.TaskPendingTimeoutSeconds = nil
		x.Spec.Template.Spec.MaxAttempts = nil
		return x
	})
	for a.w.Inf.JobConfigs.Deliver() {
	}
	admit := func(i int, pt int) (*AOut, string) {
		a.setJobCfg(-1, pt)
		raw, _ := json.Marshal(map[string]interface{}{"apiVersion": "execution.furiko.io/v1alpha1", "kind": "Job",
			"metadata": map[string]interface{}{"name": fmt.Sprintf("%s-j%d", name, i), "namespace": ns}, "spec": map[string]interface{}{"configName": name}})
		out, _, err := a.adm.Raw("jobs", "CREATE", nil, raw)
		if err != nil {
			return nil, err.Error()
		}
		var rj execution.Job
		_ = json.Unmarshal(out, &rj)
		return projA(&rj), ""
	}
	var e string
	if line.A, e = admit(1, c.Pt1); e != "" {
		line.Err = e
		return line
	}
	if line.A2, e = admit(2, c.Pt2); e != "" {
		line.Err = e
		return line
	}
	line.Mutated = a.w.Inf.JobConfigs.Mutated()
	_, _ = a.w.API.Direct("user", ktesting.NewDeleteAction(sw.JobConfigsGVR, ns, name))
	for a.w.Inf.JobConfigs.Deliver() {
	}
	return line
}

func schedObj(class string) map[string]interface{} {
	switch class {
	case "s1":
		return map[string]interface{}{"cron": map[string]interface{}{"expression": "*/5 * * * *", "timezone": "UTC"}}
	case "s2":
		return map[string]interface{}{"cron": map[string]interface{}{"expression": "0 * * * *", "timezone": "UTC"}}
	case "s1off":
		return map[string]interface{}{"cron": map[string]interface{}{"expression": "*/5 * * * *", "timezone": "UTC"}, "disabled": true}
	}
	return nil
}

func (a *admWorld) famC(c ACase) ALine {
	line := ALine{Ev: "C"}
	mk := func(class string, lu string) []byte {
		spec := map[string]interface{}{"concurrency": map[string]interface{}{"policy": "Allow"},
			"template": map[string]interface{}{"spec": map[string]interface{}{"taskTemplate": map[string]interface{}{"pod": map[string]interface{}{"spec": map[string]interface{}{
				"containers": []interface{}{map[string]interface{}{"name": "c", "image": "img"}}}}}}}}
		if s := schedObj(class); s != nil {
			if lu != "" {
				s["lastUpdated"] = lu
			}
			spec["schedule"] = s
		}
		raw, _ := json.Marshal(map[string]interface{}{"apiVersion": "execution.furiko.io/v1alpha1", "kind": "JobConfig", "metadata": map[string]interface{}{"name": "jcc", "namespace": ns}, "spec": spec})
		return raw
	}
	ts := func(d int64) string { return time.Unix(admT+d, 0).UTC().Format(time.RFC3339) }
	lu := map[string]string{"unset": "", "past": ts(-100), "future": ts(100)}[c.Lu]
	var oldRaw []byte
	if c.Op == "UPDATE" {
		oldRaw = mk(c.Old, ts(-500))
	}
	out, _, _, err := mutateRaw(a.jcm, "jobconfigs", "JobConfig", c.Op, oldRaw, mk(c.New, lu))
	if err != nil {
		line.Err = err.Error()
		return line
	}
	var jc execution.JobConfig
	if err := json.Unmarshal(out, &jc); err != nil {
		line.Err = err.Error()
		return line
	}
	switch {
	case jc.Spec.Schedule == nil:
		line.Stamp = "nosched"
	case jc.Spec.Schedule.LastUpdated == nil:
		line.Stamp = "unset"
	case jc.Spec.Schedule.LastUpdated.Unix() == admT:
		line.Stamp = "now"
	case jc.Spec.Schedule.LastUpdated.Unix() == admT+100:
		line.Stamp = "future"
	case jc.Spec.Schedule.LastUpdated.Unix() == admT-100:
		line.Stamp = "past"
	default:
		line.Stamp = "other:" + jc.Spec.Schedule.LastUpdated.String()
	}
	return line
}

func (a *admWorld) baseJob() (*execution.Job, error) {
	if a.base != nil {
		return a.base.DeepCopy(), nil
	}
	a.setJobCfg(-1, -1)
	job := &execution.Job{ObjectMeta: metav1.ObjectMeta{Name: "base", Namespace: ns, Labels: map[string]string{jobconfig.LabelKeyJobConfigUID: "uid-a"}},
		Spec: execution.JobSpec{Type: execution.JobTypeAdhoc, TTLSecondsAfterFinished: pointer.Int64(7), OptionValues: `{"a":"x"}`, Substitutions: map[string]string{"k": "v"},
			StartPolicy: &execution.StartPolicySpec{ConcurrencyPolicy: execution.ConcurrencyPolicyAllow},
			Template: &execution.JobTemplate{MaxAttempts: pointer.Int64(2), RetryDelaySeconds: pointer.Int64(5),
				Parallelism:  &execution.ParallelismSpec{WithCount: pointer.Int64(2), CompletionStrategy: execution.AllSuccessful},
				TaskTemplate: execution.TaskTemplate{Pod: &execution.PodTemplateSpec{Spec: corev1.PodSpec{Containers: []corev1.Container{{Name: "c", Image: "img"}}}}}}}}
	delete(job.Labels, jobconfig.LabelKeyJobConfigUID) // an independent Job: the label is only set for the uidlabel case below
	raw, _ := json.Marshal(job)
	out, _, err := a.adm.Raw("jobs", "CREATE", nil, raw)
	if err != nil {
		return nil, err
	}
	var rj execution.Job
	if err := json.Unmarshal(out, &rj); err != nil {
		return nil, err
	}
	a.base = &rj
	return rj.DeepCopy(), nil
}

func (a *admWorld) famU(c ACase) ALine {
	line := ALine{Ev: "U"}
	old, err := a.baseJob()
	if err != nil {
		line.Err = "base: " + err.Error()
		return line
	}
	future, passed := metav1.NewTime(time.Unix(admT+100, 0)), metav1.NewTime(time.Unix(admT-10, 0))
	if c.Field == "killTimestamp" {
		if c.KillPassed {
			old.Spec.KillTimestamp = &passed
		} else {
			old.Spec.KillTimestamp = &future
		}
	}
	if c.Field == "uidlabel" {
		old.Labels = map[string]string{jobconfig.LabelKeyJobConfigUID: "uid-a"}
	}
	if c.Started {
		st := metav1.NewTime(time.Unix(admT-50, 0))
		old.Status.StartTime = &st
	}
	// "set" cases start from an unset field
	if c.Changed && c.How == "set" {
		switch c.Field {
		case "parallelism":
			old.Spec.Template.Parallelism = nil
		case "maxAttempts":
			old.Spec.Template.MaxAttempts = nil
		case "retryDelay":
			old.Spec.Template.RetryDelaySeconds = nil
		case "optionValues":
			old.Spec.OptionValues = ""
		case "substitutions":
			old.Spec.Substitutions = nil
		case "startPolicy":
			old.Spec.StartPolicy = nil
		case "ttl":
			old.Spec.TTLSecondsAfterFinished = nil
		}
	}
	nw := old.DeepCopy()
	if c.Changed {
		unset := c.How == "unset"
		switch c.Field {
		case "taskTemplate":
			nw.Spec.Template.TaskTemplate.Pod.Spec.Containers[0].Image = "img2"
		case "parallelism":
			if unset {
				nw.Spec.Template.Parallelism = nil
			} else if c.How == "set" {
				nw.Spec.Template.Parallelism = &execution.ParallelismSpec{WithCount: pointer.Int64(2), CompletionStrategy: execution.AllSuccessful}
			} else {
				nw.Spec.Template.Parallelism.WithCount = pointer.Int64(3)
			}
		case "maxAttempts":
			if unset {
				nw.Spec.Template.MaxAttempts = nil
			} else {
				nw.Spec.Template.MaxAttempts = pointer.Int64(3)
			}
		case "retryDelay":
			if unset {
				nw.Spec.Template.RetryDelaySeconds = nil
			} else {
				nw.Spec.Template.RetryDelaySeconds = pointer.Int64(6)
			}
		case "type":
			nw.Spec.Type = execution.JobTypeScheduled
		case "optionValues":
			if unset {
				nw.Spec.OptionValues = ""
			} else {
				nw.Spec.OptionValues = `{"a":"y"}`
			}
		case "substitutions":
			if unset {
				nw.Spec.Substitutions = nil
			} else {
				nw.Spec.Substitutions = map[string]string{"k": "v2"}
			}
		case "uidlabel":
			nw.Labels[jobconfig.LabelKeyJobConfigUID] = "uid-b"
		case "startPolicy":
			if unset {
				nw.Spec.StartPolicy = nil
			} else {
				nw.Spec.StartPolicy = &execution.StartPolicySpec{ConcurrencyPolicy: execution.ConcurrencyPolicyEnqueue}
			}
		case "killTimestamp":
			if unset {
				nw.Spec.KillTimestamp = nil
			} else {
				t := metav1.NewTime(time.Unix(admT+200, 0))
				nw.Spec.KillTimestamp = &t
			}
		case "ttl":
			if unset {
				nw.Spec.TTLSecondsAfterFinished = nil
			} else {
				nw.Spec.TTLSecondsAfterFinished = pointer.Int64(8)
			}
		}
	}
	oldRaw, _ := json.Marshal(old)
	newRaw, _ := json.Marshal(nw)
	resp, herr := a.jv.Handle(context.Background(), admReq("jobs", "Job", "UPDATE", oldRaw, newRaw))
	if herr != nil {
		line.Err = herr.Error()
		return line
	}
	line.Allowed = resp.Allowed
	if !resp.Allowed && resp.Result != nil {
		line.PatchErr = resp.Result.Message
	}
	return line
}

// family P: accepted => processable
func (a *admWorld) famP(c ACase) ALine {
	line := ALine{Ev: "P", Flags: map[string]bool{}}
	cron := &configv1alpha1.CronExecutionConfig{CronFormat: c.Fmt, CronHashNames: pointer.Bool(c.Hash)}
	a.w.Cfg.SetConfigs(map[configv1alpha1.ConfigName]runtime.Object{configv1alpha1.CronExecutionConfigName: cron})
	a.setJobCfg(-1, -1)
	a.n++
	jc := &execution.JobConfig{ObjectMeta: metav1.ObjectMeta{Name: fmt.Sprintf("p%d", a.n), Namespace: ns, UID: "p-uid"},
		Spec: execution.JobConfigSpec{Concurrency: execution.ConcurrencySpec{Policy: execution.ConcurrencyPolicyAllow},
			Schedule: &execution.ScheduleSpec{Cron: &execution.CronSchedule{Expression: c.Expr, Timezone: c.TZ}},
			Template: execution.JobTemplateSpec{Spec: execution.JobTemplate{TaskTemplate: execution.TaskTemplate{Pod: &execution.PodTemplateSpec{}}}}}}
	if len(c.Exprs) > 0 {
		jc.Spec.Schedule.Cron.Expressions = append(execution.CronExpressionList{}, c.Exprs...)
	}
	jc.Spec.Template.Spec.TaskTemplate.Pod.Spec.Containers = []corev1.Container{{Name: "c", Image: "img"}}
	if c.Tl == "reserved" {
		jc.Spec.Template.Labels = map[string]string{"team": "a", jobconfig.LabelKeyJobConfigUID: "00000000-another-jobconfig"}
		jc.Spec.Template.Annotations = map[string]string{"note": "copied"}
	}
	jc.UID = ""
	var err error
	if c.Op == "UPDATE" {
		// the JobConfig exists with a valid schedule; the case's schedule arrives as an update of it
		first := jc.DeepCopy()
		first.Spec.Schedule = &execution.ScheduleSpec{Cron: &execution.CronSchedule{Expression: "*/5 * * * *", Timezone: "UTC"}}
		if _, cerr := a.w.API.Direct("user", ktesting.NewCreateAction(sw.JobConfigsGVR, ns, first)); cerr != nil {
			line.Err = "setup: " + cerr.Error()
			line.Flags["accepted"] = false
			return line
		}
		for a.w.Inf.JobConfigs.Deliver() {
		}
		defer func() {
			_, _ = a.w.API.Direct("user", ktesting.NewDeleteAction(sw.JobConfigsGVR, ns, jc.Name))
			for a.w.Inf.JobConfigs.Deliver() {
			}
		}()
		upd := a.w.API.Get("jobconfigs", ns, jc.Name).(*execution.JobConfig).DeepCopy()
		upd.Spec.Schedule = jc.Spec.Schedule
		upd.ResourceVersion = ""
		_, err = a.w.API.Direct("user", ktesting.NewUpdateAction(sw.JobConfigsGVR, ns, upd))
	} else {
		_, err = a.w.API.Direct("user", ktesting.NewCreateAction(sw.JobConfigsGVR, ns, jc))
	}
	line.Flags["accepted"] = err == nil
	if err != nil {
		line.Err = err.Error()
		return line
	}
	for a.w.Inf.JobConfigs.Deliver() {
	}
	adm := *a.w.API.Get("jobconfigs", ns, jc.Name).(*execution.JobConfig).DeepCopy()
	defer func() {
		_, _ = a.w.API.Direct("user", ktesting.NewDeleteAction(sw.JobConfigsGVR, ns, jc.Name))
		for a.w.Inf.JobConfigs.Deliver() {
		}
	}()
	ctx := a.w.Proc("webhook").Context()
	sched, err := cronschedule.New([]*execution.JobConfig{&adm}, cronschedule.WithClock(a.w.Clk), cronschedule.WithConfigLoader(ctx.Configs()))
	line.Flags["loadable"] = err == nil
	if err != nil {
		line.Err = "load: " + err.Error()
	} else {
		_, berr := sched.Bump(&adm, a.w.Clk.Now())
		line.Flags["bumpable"] = berr == nil
		if berr != nil {
			line.Err = "bump: " + berr.Error()
		}
	}
	job, err := jobconfig.NewJobFromJobConfig(&adm, execution.JobTypeScheduled, a.w.Clk.Now())
	line.Flags["instantiable"] = err == nil
	if err == nil {
		jraw, _ := json.Marshal(job)
		jout, _, jerr := a.adm.Raw("jobs", "CREATE", nil, jraw)
		line.Flags["jobaccepted"] = jerr == nil
		if jerr != nil {
			line.Err = "job: " + jerr.Error()
		} else {
			var rj execution.Job
			_ = json.Unmarshal(jout, &rj)
			rj.UID = "j-uid"
			_, perr := podtaskexecutor.NewPod(&rj, &corev1.PodTemplateSpec{Spec: rj.Spec.Template.TaskTemplate.Pod.Spec}, tasks.TaskIndex{Parallel: parallel.GetDefaultIndex()})
			line.Flags["podbuildable"] = perr == nil
		}
	}
	return line
}

func AdmissionMain(args []string) (interface{}, error) {
	fs := flag.NewFlagSet("admission", flag.ContinueOnError)
	mode := fs.String("mode", "cases", "cases")
	_ = fs.Int64("seed", 1, "seed")
	out := fs.String("out", "", "trace output")
	casesPath := fs.String("cases", "", "cases file")
	if err := fs.Parse(args); err != nil {
		return nil, err
	}
	if *mode != "cases" {
		return nil, fmt.Errorf("admission: unknown mode %q", *mode)
	}
	f, err := os.Create(*out)
	if err != nil {
		return nil, err
	}
	defer f.Close()
	bw := bufio.NewWriterSize(f, 1<<20)
	defer bw.Flush()
	tr := sw.NewTracer(bw)
	sum := &PSummary{Labels: map[string]int{}}
	a, err := newAdmWorld()
	if err != nil {
		return nil, err
	}
	cf, err := os.Open(*casesPath)
	if err != nil {
		return nil, err
	}
	defer cf.Close()
	sc := bufio.NewScanner(cf)
	sc.Buffer(make([]byte, 1<<20), 1<<26)
	for sc.Scan() {
		var c ACase
		if err := json.Unmarshal(sc.Bytes(), &c); err != nil {
			return nil, err
		}
		var line ALine
		switch c.Fam {
		case "A":
			line = a.famA(c)
		case "B":
			line = a.famB(c)
		case "C":
			line = a.famC(c)
		case "U":
			line = a.famU(c)
		case "P":
			line = a.famP(c)
		case "D":
			line = a.famD(c)
		default:
			return nil, fmt.Errorf("unknown family %q", c.Fam)
		}
		line.C = append(json.RawMessage{}, sc.Bytes()...)
		if line.Mutated == nil {
			line.Mutated = []string{}
		}
		line.Run = sum.Cases
		tr.Emit(line)
		sum.Cases++
		sum.Labels[c.Fam]++
	}
	sum.Runs = sum.Cases
	sum.Lines = tr.Lines
	return sum, nil
}
