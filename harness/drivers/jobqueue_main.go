package drivers

import (
	"bufio"
	"encoding/json"
	"flag"
	"fmt"
	"math/rand"
	"os"

	sw "verifharness/simworld"
)

// Modules registers the other module entry points (filled by init functions).
var Modules = map[string]func(args []string) (interface{}, error){}

type JQSummary struct {
	Runs        int            `json:"runs"`
	Lines       int            `json:"lines"`
	Steps       int            `json:"steps"`
	Diverged    int            `json:"diverged"`     // replayed schedules that the real system could not follow to the end
	DivergedAt  map[string]int `json:"diverged_at"`  // label at which a schedule stopped being followed
	Labels      map[string]int `json:"labels"`       // executed steps per action name
	DrainFailed int            `json:"drain_failed"` // runs whose drain budget was exhausted
	Faults      int            `json:"faults"`
}

// JobQueueMain: random and replay drivers of the JobQueue module.
func JobQueueMain(args []string) (interface{}, error) {
	fs := flag.NewFlagSet("jobqueue", flag.ContinueOnError)
	mode := fs.String("mode", "random", "random | replay")
	seed := fs.Int64("seed", 1, "seed")
	runs := fs.Int("runs", 50, "number of random runs")
	steps := fs.Int("steps", 80, "steps per random run")
	out := fs.String("out", "", "trace output (ndjson)")
	sched := fs.String("sched", "", "schedules file (one JSON array of labels per line) for replay")
	suffix := fs.Int("suffix", 0, "replay: seeded random steps appended to every replayed schedule before the drain")
	storeLag := fs.Bool("storelag", false, "store listener lags")
	fifo := fs.Bool("fifo", false, "order-sensitive workload: one JobConfig at its limit, mostly Enqueue Jobs")
	jobsFirst := fs.Bool("jobsfirst", false, "on restart the Job informer lists before the JobConfig informer")
	statusLag := fs.Bool("statuslag", false, "jobconfigcontroller profile: late JobConfig deliveries, Jobs that finish unstarted or leave early (implies -jcsync)")
	watchBreak := fs.Bool("watchbreak", false, "the Job watch may break: undelivered events are lost and the informer lists again")
	applied := fs.Bool("applied", false, "applied-but-error faults")
	jcsync := fs.Bool("jcsync", false, "run jobconfigcontroller")
	crashes := fs.Bool("crash", true, "allow crash/restart")
	faultP := fs.Float64("faultp", 0.08, "fault probability per write")
	maxJobs := fs.Int("jobs", 4, "max Jobs per run")
	if err := fs.Parse(args); err != nil {
		return nil, err
	}
	f, err := os.Create(*out)
	if err != nil {
		return nil, err
	}
	defer f.Close()
	bw := bufio.NewWriterSize(f, 1<<20)
	defer bw.Flush()
	tr := sw.NewTracer(bw)
	sum := &JQSummary{DivergedAt: map[string]int{}, Labels: map[string]int{}}
	rng := rand.New(rand.NewSource(*seed))
	apply := func(q *JQ, l Label) bool {
		if !q.Apply(l) {
			return false
		}
		sum.Steps++
		sum.Labels[l.A]++
		if l.F != "" && l.F != "ok" {
			sum.Faults++
		}
		return true
	}
	switch *mode {
	case "random":
		for r := 0; r < *runs; r++ {
			o := JQOpts{NJC: 1 + rng.Intn(2), StoreLag: *storeLag, JobsFirst: *jobsFirst, JCSync: *jcsync || *statusLag, StatusLag: *statusLag, WatchBreak: *watchBreak, MaxJobs: 2 + rng.Intn(*maxJobs-1)}
			for c := 0; c < o.NJC; c++ {
				o.MaxC = append(o.MaxC, 1+rng.Intn(2))
			}
			if *fifo {
				o.Fifo, o.NJC, o.MaxC, o.MaxJobs = true, 1, []int{1}, 4+rng.Intn(2)
			}
			q := NewJQ(o, tr, r)
			q.Reset()
			maxTime := 1 + rng.Intn(4)
			crashLeft := 0
			if *crashes && rng.Intn(3) == 0 {
				crashLeft = 1
			}
			for s := 0; s < *steps; s++ {
				en := q.Enabled(rng, maxTime, *faultP, *applied)
				if crashLeft > 0 && rng.Intn(40) == 0 {
					en = append(en, Label{A: "CrashRestart"})
				}
				if len(en) == 0 {
					break
				}
				l := en[rng.Intn(len(en))]
				if l.A == "CrashRestart" {
					crashLeft--
				}
				if !apply(q, l) {
					return nil, fmt.Errorf("run %d: enabled step %+v refused", r, l)
				}
			}
			if !q.Finale(2000) {
				sum.DrainFailed++
			}
			sum.Runs++
		}
	case "replay":
		sf, err := os.Open(*sched)
		if err != nil {
			return nil, err
		}
		defer sf.Close()
		sc := bufio.NewScanner(sf)
		sc.Buffer(make([]byte, 1<<20), 1<<26)
		r := 0
		for sc.Scan() {
			var s struct {
				Cfg   JQOpts  `json:"cfg"`
				Steps []Label `json:"steps"`
			}
			if err := json.Unmarshal(sc.Bytes(), &s); err != nil {
				return nil, fmt.Errorf("schedule %d: %v", r, err)
			}
			o := s.Cfg
			if o.NJC == 0 {
				o.NJC = 1
			}
			if o.MaxJobs == 0 {
				o.MaxJobs = 3
			}
			// a directed schedule is run twice: followed by the drain alone, and followed by seeded random steps and the drain
			variants := []int{0}
			if *suffix > 0 {
				variants = []int{0, *suffix}
			}
			for _, nsuffix := range variants {
				q := NewJQ(o, tr, r)
				q.Reset()
				for _, l := range s.Steps {
					if !apply(q, l) {
						sum.Diverged++
						sum.DivergedAt[l.A]++
						break
					}
				}
				// directed schedules: continue from the reached state with seeded random steps before draining
				for k := 0; k < nsuffix; k++ {
					en := q.Enabled(rng, q.W.Now()+2, *faultP, *applied)
					if len(en) == 0 {
						break
					}
					if !apply(q, en[rng.Intn(len(en))]) {
						break
					}
				}
				if !q.Finale(2000) {
					sum.DrainFailed++
				}
				sum.Runs++
				r++
			}
		}
	default:
		return nil, fmt.Errorf("unknown mode %q", *mode)
	}
	sum.Lines = tr.Lines
	return sum, nil
}
