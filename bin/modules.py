"""Module and property registry for bin/check (one source of truth for tiers)."""

# ---------------------------------------------------------------- JobQueue
JQ_HCFG = {"NJC": 1, "MaxC": [1], "MaxJobs": 3}

JOBQUEUE = {
    "name": "jobqueue",
    "vh": "jobqueue",
    "design": {
        "quick": [
            {"module": "JobQueue_MC.tla", "cfg": "JobQueue_MC_core.cfg", "timeout": 600},
            {"module": "JobQueue_MC.tla", "cfg": "JobQueue_MC_env.cfg", "timeout": 600},
            {"module": "JobQueue_MC.tla", "cfg": "JobQueue_MC_crash.cfg", "timeout": 600},
            {"module": "JobQueue_MC.tla", "cfg": "JobQueue_MC_indep.cfg", "timeout": 600},
            {"module": "JobQueue_MC.tla", "cfg": "JobQueue_MC_postpone_small.cfg", "timeout": 600},
            {"module": "JobQueue_MC.tla", "cfg": "JobQueue_MC_jc.cfg", "timeout": 600},
        ],
        "thorough": [
            {"module": "JobQueue_MC.tla", "cfg": "JobQueue_MC_core.cfg", "timeout": 900},
            {"module": "JobQueue_MC.tla", "cfg": "JobQueue_MC_env.cfg", "timeout": 900},
            {"module": "JobQueue_MC.tla", "cfg": "JobQueue_MC_crash.cfg", "timeout": 1500},
            {"module": "JobQueue_MC.tla", "cfg": "JobQueue_MC_indep.cfg", "timeout": 1500},
            {"module": "JobQueue_MC.tla", "cfg": "JobQueue_MC_postpone.cfg", "timeout": 1500},
            {"module": "JobQueue_MC.tla", "cfg": "JobQueue_MC_jc.cfg", "timeout": 1500},
        ],
    },
    "sim": {
        "quick": [{"module": "JobQueue_Sim.tla", "cfg": "JobQueue_Sim.cfg", "num": 300, "depth": 41, "harness_cfg": JQ_HCFG}],
        "thorough": [{"module": "JobQueue_Sim.tla", "cfg": "JobQueue_Sim.cfg", "num": 4000, "depth": 41, "harness_cfg": JQ_HCFG},
                     {"module": "JobQueue_Sim.tla", "cfg": "JobQueue_Sim_jc.cfg", "num": 2000, "depth": 51,
                      "harness_cfg": dict(JQ_HCFG, JCSync=True), "flags": []}],
    },
    "goals": {t: [{"module": "JobQueue_Goal.tla", "cfg": "JobQueue_Goal_jc.cfg", "harness_cfg": dict(JQ_HCFG, JCSync=True, MaxJobs=2), "timeout": 300, "flags": ["-suffix", n]},
                  # one search, two replays: the second with the restart's informers listing Jobs before JobConfigs
                  {"module": "JobQueue_Goal.tla", "cfg": "JobQueue_Goal_q.cfg", "harness_cfg": JQ_HCFG, "timeout": 300, "flags": ["-suffix", n],
                   "variants": [{"label": "jobsfirst", "harness_cfg": dict(JQ_HCFG, JobsFirst=True)}]},
                  {"module": "JobQueue_Goal.tla", "cfg": "JobQueue_Goal_q2.cfg", "harness_cfg": dict(JQ_HCFG, MaxC=[2]), "timeout": 300, "flags": ["-suffix", n]}]
              for t, n in (("quick", "20"), ("thorough", "50"))},
    "harness": {
        "quick": [
            {"name": "random", "args": ["jobqueue", "-mode", "random", "-seed", "{seed}", "-runs", "150", "-steps", "90"]},
            {"name": "random-jcsync", "args": ["jobqueue", "-mode", "random", "-seed", "{seed}", "-runs", "100", "-steps", "90", "-jcsync"]},
            {"name": "random-jobsfirst", "args": ["jobqueue", "-mode", "random", "-seed", "{seed}", "-runs", "150", "-steps", "90", "-jobsfirst"]},
            {"name": "random-fifo", "args": ["jobqueue", "-mode", "random", "-seed", "{seed}", "-runs", "200", "-steps", "90", "-fifo"]},
            {"name": "random-statuslag", "args": ["jobqueue", "-mode", "random", "-seed", "{seed}", "-runs", "200", "-steps", "100", "-statuslag"]},
            {"name": "random-watchbreak", "args": ["jobqueue", "-mode", "random", "-seed", "{seed}", "-runs", "150", "-steps", "100", "-watchbreak", "-jcsync"]},
        ],
        "thorough": [
            {"name": "random", "args": ["jobqueue", "-mode", "random", "-seed", "{seed}", "-runs", "3000", "-steps", "110"]},
            {"name": "random-jcsync", "args": ["jobqueue", "-mode", "random", "-seed", "{seed}", "-runs", "2000", "-steps", "110", "-jcsync"]},
            {"name": "random-storelag", "args": ["jobqueue", "-mode", "random", "-seed", "{seed}", "-runs", "1500", "-steps", "110", "-storelag"]},
            {"name": "random-jobsfirst", "args": ["jobqueue", "-mode", "random", "-seed", "{seed}", "-runs", "1500", "-steps", "110", "-jobsfirst"]},
            {"name": "random-fifo", "args": ["jobqueue", "-mode", "random", "-seed", "{seed}", "-runs", "2000", "-steps", "110", "-fifo"]},
            {"name": "random-statuslag", "args": ["jobqueue", "-mode", "random", "-seed", "{seed}", "-runs", "2000", "-steps", "110", "-statuslag"]},
            {"name": "random-watchbreak", "args": ["jobqueue", "-mode", "random", "-seed", "{seed}", "-runs", "1500", "-steps", "110", "-watchbreak", "-jcsync"]},
            {"name": "random-applied", "args": ["jobqueue", "-mode", "random", "-seed", "{seed}", "-runs", "1500", "-steps", "110", "-applied"]},
        ],
    },
    "monitor": {"module": "MonJobQueue.tla", "cfg": "MonJobQueue.cfg"},
}

# ---------------------------------------------------------------- JobLife
def _jl_hcfg(**kw):
    """harness options (drivers.JLOpts) realising the constants of a JobLife_Sim_*.cfg"""
    c = {"N": 2, "Par": True, "MaxAtt": 2, "Delay": 1, "Strategy": "AllSuccessful", "JobPT": 2, "CfgPT": -1, "JobTTL": 2, "CfgTTL": -1,
         "CfgFD": 2, "Forbid": False, "Foreign": False, "PodLagFree": True}
    c.update(kw)
    return c


JL_SIMS = {
    "a": _jl_hcfg(),
    "b": _jl_hcfg(Strategy="AnySuccessful", Hold=True),
    "c": _jl_hcfg(N=1, MaxAtt=3, Foreign=True),
    "d": _jl_hcfg(Forbid=True, JobPT=0),
    "e": _jl_hcfg(),
}


def _jl_sims(num):
    return [{"module": "JobLife_Sim.tla", "cfg": "JobLife_Sim_%s.cfg" % k, "num": num, "depth": 48, "harness_cfg": v, "timeout": 600}
            for k, v in sorted(JL_SIMS.items())]


JL_GOALS = {
    "a": _jl_hcfg(Strategy="AnySuccessful", Delay=0, JobPT=0),
    "b": _jl_hcfg(N=1, Delay=0, JobPT=1),
    "c": _jl_hcfg(MaxAtt=1, Delay=0),
    "d": _jl_hcfg(MaxAtt=1, Delay=0, JobPT=0, JobTTL=4),
    "e": _jl_hcfg(N=1, MaxAtt=1, Delay=0, JobPT=0, JobTTL=4),
}


def _jl_goals(suffix):
    return [{"module": "JobLife_Goal.tla", "cfg": "JobLife_Goal_%s.cfg" % k, "harness_cfg": v, "timeout": 300, "flags": ["-suffix", str(suffix)]}
            for k, v in sorted(JL_GOALS.items())]


def _jl_design(names, timeout):
    return [{"module": "JobLife_MC.tla", "cfg": "JobLife_MC_%s.cfg" % n, "timeout": timeout} for n in names]


JOBLIFE = {
    "name": "joblife",
    "vh": "joblife",
    "design": {
        "quick": _jl_design(["core", "foreign", "crash", "ext", "reject"], 600),
        "thorough": _jl_design(["core", "kill0", "kill1", "fault", "del", "ext", "crash", "any2", "all2", "foreign", "forbid", "lagq", "reject", "hold", "rekill", "invalid", "watchbreak"], 2400),
    },
    "sim": {"quick": _jl_sims(12), "thorough": _jl_sims(400)},
    # directed schedules: breadth-first search for goal states of JobLife_Goal.tla, replayed and continued with random steps
    "goals": {"quick": _jl_goals(25), "thorough": _jl_goals(60)},
    "harness": {
        "quick": [
            {"name": "random-fresh", "args": ["joblife", "-mode", "random", "-seed", "{seed}", "-runs", "600", "-steps", "120", "-fresh"]},
            {"name": "random-lag", "args": ["joblife", "-mode", "random", "-seed", "{seed}", "-runs", "500", "-steps", "120"]},
        ],
        "thorough": [
            {"name": "random-fresh", "args": ["joblife", "-mode", "random", "-seed", "{seed}", "-runs", "3000", "-steps", "130", "-fresh"]},
            {"name": "random-lag", "args": ["joblife", "-mode", "random", "-seed", "{seed}", "-runs", "3000", "-steps", "130"]},
            {"name": "random-skew", "args": ["joblife", "-mode", "random", "-seed", "{seed}", "-runs", "1500", "-steps", "130", "-skew"]},
            {"name": "random-applied", "args": ["joblife", "-mode", "random", "-seed", "{seed}", "-runs", "1500", "-steps", "130", "-applied"]},
            {"name": "random-fresh-applied", "args": ["joblife", "-mode", "random", "-seed", "{seed}", "-runs", "1500", "-steps", "130", "-fresh", "-applied"]},
        ],
    },
    "monitor": {"module": "MonJobLife.tla", "cfg": "MonJobLife.cfg"},
}

# ---------------------------------------------------------------- Cron
CRON_HCFG = {"NJC": 2, "MaxMissed": 2, "MaxDownMin": 3}
DYN = None


def _cron_design(names, timeout):
    return [{"module": "Cron_MC.tla", "cfg": "Cron_MC_%s.cfg" % n, "timeout": timeout} for n in names]


CRON = {
    "name": "cron",
    "vh": "cron",
    "design": {
        "quick": _cron_design(["core", "recon", "two_small", "catchup", "relist"], 600),
        "thorough": _cron_design(["core", "recon", "two", "catchup_big", "mid", "relist"], 2400),
    },
    "sim": {
        "quick": [{"module": "Cron_Sim.tla", "cfg": "Cron_Sim_a.cfg", "num": 150, "depth": 45, "harness_cfg": CRON_HCFG, "timeout": 600}],
        "thorough": [{"module": "Cron_Sim.tla", "cfg": "Cron_Sim_a.cfg", "num": 3000, "depth": 45, "harness_cfg": CRON_HCFG, "timeout": 1200},
                     {"module": "Cron_Sim.tla", "cfg": "Cron_Sim_b.cfg", "num": 3000, "depth": 60, "harness_cfg": {"NJC": 3, "MaxMissed": 1, "MaxDownMin": 1}, "timeout": 1200}],
    },
    "goals": {t: [{"module": "Cron_Goal.tla", "cfg": "Cron_Goal_a.cfg", "harness_cfg": {"NJC": 1, "MaxMissed": 2, "MaxDownMin": 3}, "timeout": 420},
                  {"module": "Cron_Goal.tla", "cfg": "Cron_Goal_b.cfg", "harness_cfg": {"NJC": 1, "MaxMissed": 2, "MaxDownMin": 3}, "timeout": 300},
                  {"module": "Cron_Goal.tla", "cfg": "Cron_Goal_c.cfg", "harness_cfg": {"NJC": 1, "MaxMissed": 2, "MaxDownMin": 3}, "timeout": 300}] for t in ("quick", "thorough")},
    "harness": {
        "quick": [
            {"name": "random", "args": ["cron", "-mode", "random", "-seed", "{seed}", "-runs", "250", "-steps", "120"]},
            {"name": "random-std", "args": ["cron", "-mode", "random", "-seed", "{seed}", "-runs", "150", "-steps", "120", "-std"]},
            {"name": "random-system", "args": ["cron", "-mode", "random", "-seed", "{seed}", "-runs", "120", "-steps", "160", "-system"]},
            {"name": "random-twin", "args": ["cron", "-mode", "random", "-seed", "{seed}", "-runs", "60", "-steps", "140", "-twin"]},
        ],
        "thorough": [
            {"name": "random", "args": ["cron", "-mode", "random", "-seed", "{seed}", "-runs", "4000", "-steps", "140"]},
            {"name": "random-std", "args": ["cron", "-mode", "random", "-seed", "{seed}", "-runs", "2000", "-steps", "140", "-std"]},
            {"name": "random-system", "args": ["cron", "-mode", "random", "-seed", "{seed}", "-runs", "1500", "-steps", "180", "-system"]},
            {"name": "random-twin", "args": ["cron", "-mode", "random", "-seed", "{seed}", "-runs", "800", "-steps", "160", "-twin"]},
        ],
    },
    "monitor": {"module": "MonCron.tla", "cfg": "MonCron.cfg"},
}

DYNCONFIG = {
    "name": "dynconfig",
    "vh": "dynconfig",
    "design": {
        "quick": [{"module": "DynConfig.tla", "cfg": "DynConfig_MC.cfg", "timeout": 600}, {"module": "DynConfig.tla", "cfg": "DynConfig_MC2.cfg", "timeout": 600}],
        "thorough": [{"module": "DynConfig.tla", "cfg": "DynConfig_MC.cfg", "timeout": 1200}, {"module": "DynConfig.tla", "cfg": "DynConfig_MC2.cfg", "timeout": 1200},
                     {"module": "DynConfig.tla", "cfg": "DynConfig_MC3.cfg", "timeout": 2400}],
    },
    "sim": {
        "quick": [{"module": "DynConfig_Sim.tla", "cfg": "DynConfig_Sim.cfg", "num": 150, "depth": 24, "harness_cfg": {}, "timeout": 600}],
        "thorough": [{"module": "DynConfig_Sim.tla", "cfg": "DynConfig_Sim.cfg", "num": 3000, "depth": 24, "harness_cfg": {}, "timeout": 1200}],
    },
    "harness": {
        "quick": [{"name": "random", "args": ["dynconfig", "-mode", "random", "-seed", "{seed}", "-runs", "2000", "-steps", "30"]}],
        "thorough": [{"name": "random", "args": ["dynconfig", "-mode", "random", "-seed", "{seed}", "-runs", "8000", "-steps", "40"]}],
    },
    "monitor": {"module": "MonDynConfig.tla", "cfg": "MonDynConfig.cfg"},
}

def _functional(name, spec, mon, extra_thorough=None):
    q = [{"module": spec + "_Cases.tla", "cfg": spec + "_Cases.cfg", "timeout": 900}]
    t = list(q) + ([{"module": spec + "_Cases.tla", "cfg": extra_thorough, "timeout": 2400}] if extra_thorough else [])
    return {"name": name, "vh": name, "design": {"quick": [], "thorough": []}, "sim": {"quick": [], "thorough": []},
            "cases": {"quick": q, "thorough": t}, "harness": {"quick": [], "thorough": []}, "monitor": {"module": mon + ".tla", "cfg": mon + ".cfg"}}


PARALLEL = _functional("parallel", "Parallel", "MonParallel", "Parallel_Cases_big.cfg")
OPTIONS = _functional("options", "Options", "MonOptions")
ADMISSION = _functional("admission", "Admission", "MonAdmission")
STATUS = _functional("status", "Status", "MonStatus")

MODULES = {"jobqueue": JOBQUEUE, "joblife": JOBLIFE, "cron": CRON, "dynconfig": DYNCONFIG, "parallel": PARALLEL, "options": OPTIONS, "admission": ADMISSION, "status": STATUS}

PROPS = {
    "C05": {"modules": ["jobqueue", "cron"], "assumptions": [
        "TLC, the Json/IOUtils community modules, and the harness's SimAPI semantics (resourceVersion conflicts, status sub-resource, no-op updates) are trusted",
        "Jobs carrying the JobConfig UID label without an owner reference are outside the modelled input class"]},
    "C06": {"modules": ["jobqueue", "cron"], "assumptions": ["FIFO is judged against what the pass saw at its SyncBegin (knowledge lag, DESIGN 3.7)"]},
    "C07": {"modules": ["jobqueue"], "assumptions": ["AddAfter durations are not interpreted: a deferred re-sync may fire at any time once armed"]},
    "C15": {"modules": ["jobqueue", "cron"], "assumptions": [
        "lastScheduled/lastExecuted must cover Jobs that were in the cache of a jobconfigcontroller pass that ended successfully (DESIGN 3.7: what a status controller can know)",
        "the JobConfigs of this module have no cron schedule, so the expected idle state is Ready (ReadyEnabled/ReadyDisabled are exercised in the cron module)"]},
}

JL_ASSUME = [
    "TLC, the Json/IOUtils community modules, and the harness's SimAPI semantics (finalizers, graceful/forced Pod deletion, resourceVersion conflicts, status sub-resource) are trusted",
    "user-set fields (killTimestamp, deletion) and Pod state are judged against what the pass could see at its SyncBegin (knowledge lag, DESIGN 3.7)",
    "one Job per world; the queue controller's start write is an environment step",
]
for _p in ("C08", "C09", "C10", "C11", "C12", "C13"):
    PROPS[_p] = {"modules": ["joblife"], "assumptions": JL_ASSUME}
for _p in ("C10", "C11", "C13"):
    PROPS[_p] = {"modules": ["joblife", "status"], "assumptions": JL_ASSUME + [
        "status derivation (Status module): Pods are drawn from the enumerated shapes (phase, deletion, startTime, deadline-exceeded, up to two containers in five states); a container that restarted (lastTerminationState) is outside them"]}

CRON_ASSUME = [
    "TLC, the Json/IOUtils community modules, Go's tz database and the cronexpr library's single-expression Next (the pointwise due-set oracle) are trusted",
    "a CronWorker pass is one step (the real worker holds its mutex for the whole pass); the clock does not move inside a pass",
    "knowledge lag (DESIGN 3.7): a JobConfig change counts from the pass that follows its delivery to the controller's cache; times between the change and that pass may be skipped",
]
for _p in ("C01", "C02", "C03", "C04"):
    PROPS[_p] = {"modules": ["cron"], "assumptions": CRON_ASSUME}

PROPS["C19"] = {"modules": ["dynconfig"], "assumptions": [
    "TLC and the Json/IOUtils community modules are trusted; informer events reach the loaders through the verif accessor (synchronously)",
    "Secret values are base64 text inside Secret.Data (the repository's own convention, see its loader tests)",
    "wrongly typed values are: a string for a number or boolean, a number for a string; a map where a scalar is expected is silently dropped by the merge library and is not part of the explored input classes",
]}

C20_COVERS = {"C02", "C05", "C06", "C07", "C08", "C09", "C10", "C11", "C12", "C13", "C15"}
PROPS["C20"] = {"modules": ["cron", "jobqueue", "joblife"], "assumptions": [
    "faults are injected at the simulated API per call: rejected (Conflict, ServerTimeout, InternalError) in every tier, applied-but-error in the thorough tier; a crash discards every in-memory structure and rebuilds it as Run/Recover/Init do",
    "faults, retries and crashes do not advance the clock by themselves (DESIGN 3.7)",
    "every safety / convergence formula of C02, C05-C13, C15 that fails in a run after an injected fault or crash is reported by this check as well as by its own property's check",
]}

PROPS["C14"] = {"modules": ["parallel"], "assumptions": [
    "the specification leaves the index identity (6-character hash) uninterpreted; its injectivity is discharged per enumerated case on the real HashIndex (weakest link, see DESIGN section 4 C14)",
    "TLC enumerates every spec up to the bounds in the Parallel_Cases configuration; larger specs are not explored",
]}
PROPS["C18"] = {"modules": ["options"], "assumptions": [
    "values are drawn from a catalogue (absent, null, wrong type, empty, padded, allowed, custom, containing variable syntax); strings outside it are not explored",
    "for a value that itself contains variable syntax only determinism of the rendered task is required (the statement does not say whether values are re-scanned)",
    "date options: one instant and two explicit moment formats",
]}

PROPS["C16"] = {"modules": ["admission"], "assumptions": [
    "requests range over presence/absence and small value classes of every optional field the mutators touch (Admission_Cases.tla); other well-typed requests are not explored",
    "patch faithfulness is computed in Go with the API server's JSON-patch library (github.com/evanphx/json-patch) and asserted by TLC - a differential check over TLC-enumerated cases, not something the specification decides (DESIGN section 4 C16)",
]}
PROPS["C17"] = {"modules": ["admission"], "assumptions": [
    "update pairs change one field at a time (value change, nil -> value, value -> nil)",
    "accepted => processable is checked over a corpus of schedule shape classes x time-zone forms x cron configurations enumerated by TLC; a mis-parse outside the corpus classes is not found by this check (DESIGN section 4 C17)",
]}

_PASS = ["NeverEarly", "OnSchedule", "Stops", "Once", "InOrder", "Cap", "NoGap", "HeapFollows"]
FORMULAS = {
    "C01": ["C01_" + x for x in _PASS] + ["C01_HeapIndex"],
    "C02": ["C02_AtMostOne", "C02_Identity", "C02_KeyRoundTrip", "C02_Requested", "C02_Served", "C02_SharedCacheIntact"],
    "C03": ["C03_" + x for x in _PASS],
    "C14": ["C14_Expansion", "C14_Deterministic", "C14_Admission", "C14_DistinctIdentity", "C14_OwnVariables"],
    "C16": ["C16_PatchFaithful", "C16_Defaults", "C16_Idempotent", "C16_ConfigName", "C16_Precedence", "C16_LastUpdated", "C16_SharedCacheIntact"],
    "C17": ["C17_Immutable", "C17_Processable"],
    "C18": ["C18_Eval", "C18_DefaultAgrees", "C18_Deterministic", "C18_Subst"],
    "C19": ["C19_Layering", "C19_LKG"],
    "C20": ["C20_Converges", "C20_Quiescent", "C20_SameOutcome", "<every formula of C02, C05-C13, C15 on runs with injected faults or crashes>"],
    "C04": ["C04_" + x for x in _PASS],
    "C05": ["C05_Admission"],
    "C06": ["C06_Fifo", "C06_EnqueueNeverRefused", "C06_AllowNeverRefused", "C06_RefusedOnlyAtLimit", "C06_ForbidNotStartedAtLimit", "C06_NoStuck", "C06_CronForbid"],
    "C07": ["C07_NotEarly", "C07_NotEarlyStep", "C07_IndependentStarts", "C07_DueStarts", "C07_RefusedOnlyWhenDue"],
    "C15": ["C15_Exact", "C15_Monotone", "C15_Covers"],
    "C08": ["C08_OneLive", "C08_Order", "C08_Delay", "C08_Gates"],
    "C09": ["C09_Keep", "C09_NotLost", "C09_NoForeignAdopt", "C09_AdmOnlyForeign", "C09_Listed", "C09_ForeignEnds"],
    "C10": ["C10_SuccOnly", "C10_FailOnly", "C10_RefMatchesTask", "C10_NoLiveAtFinish", "C10_Reaches", "C10_Progress", "C10_TaskTruth", "C10_Result"],
    "C11": ["C11_Coherent", "C11_Monotone", "C11_KeepTimes", "C11_LostKeeps", "C11_Deterministic", "C11_Total"],
    "C12": ["C12_DeleteJustified", "C12_ForceGate", "C12_KillSticky", "C12_KillCompletes", "C12_PendingCompletes"],
    "C13": ["C13_Order", "C13_OrderAll", "C13_TTLNotEarly", "C13_DeletionCompletes", "C13_TTLEventually", "C13_FinishTime"],
}


def formulas_of(prop):
    return FORMULAS.get(prop, [])


# ---------------------------------------------------------------- MANIFEST texts (bin/genmanifest)
TECH_SYS = ("explicit TLA+ spec model-checked with TLC + trace validation of the real controllers (TLC-generated behaviours - random simulation and goal-directed breadth-first "
            "search for hard-to-reach states - replayed step by step with the specification's state compared after every step, seeded random runs, log-driven TLA+ monitor)")
NOTE_SYS = ("Trusted: TLC, the Json/IOUtils community modules, Go runtime, client-go generated clients/listers, the harness's SimAPI semantics and the "
            "projection/concretisation maps. Bounded: small constants for the exhaustive design check; finitely many schedules on the real code.")

LEVEL_TEXT = {
    "C05": "TLC exhaustively checks C05_Admission (and the counter invariants) on the JobQueue design spec (2 Jobs, all policies, lag 2, write faults, foreign writes, deletion, restart); the same formula is then evaluated by TLC on every step of traces recorded from the real activejobstore + jobqueuecontroller, driven by TLC-generated schedules replayed step-by-step and by a seeded random scheduler with fault and crash injection, each run ending with a drain and an admission probe. The same admission, no-stuck and status-exactness formulas are also evaluated on a composition run in the Cron module (real cron worker + cron reconciler + job queue controller + jobconfig controller + store + webhooks in one simulated world: schedule -> Job -> start -> JobConfig status -> catch-up after restart).",
    "C06": "TLC checks FIFO, never-refused, refused-only-at-limit and no-stuck-at-quiescence on the JobQueue design spec and evaluates the same formulas on traces of the real per-config reconciler (TLC schedules replayed + seeded random runs, drain to quiescence, livelock detection). The same admission, no-stuck and status-exactness formulas are also evaluated on a composition run in the Cron module (real cron worker + cron reconciler + job queue controller + jobconfig controller + store + webhooks in one simulated world: schedule -> Job -> start -> JobConfig status -> catch-up after restart).",
    "C07": "TLC checks never-before-startAfter (state and step form) and due-Jobs-start-at-quiescence for owned and independent Jobs on the design spec and on recorded traces of the real reconcilers; the drain moves the clock past every startAfter and fires the armed deferred re-syncs only.",
    "C15": "TLC checks on the JobQueue design spec (with the jobconfigcontroller pass as JSyncBegin/JStepWrite actions, conflicts and write faults) that at quiescence the status lists exactly the active and queued Jobs and that lastScheduled/lastExecuted are monotone and cover every Job a successful pass saw; the same formulas are evaluated by TLC on traces of the real jobconfigcontroller running next to the real queue controller (TLC schedules replayed, seeded random runs with Job removal, faults and restart). The same admission, no-stuck and status-exactness formulas are also evaluated on a composition run in the Cron module (real cron worker + cron reconciler + job queue controller + jobconfig controller + store + webhooks in one simulated world: schedule -> Job -> start -> JobConfig status -> catch-up after restart).",
    "C08": "TLC exhaustively checks one-live-task-per-index, gap-free bounded retry numbering, retry delay and the creation gates on the JobLife design spec (reconcile pass split at every API call, independent Job/Pod cache lag, kubelet, user kill/delete, faults, crash) and evaluates the same formulas at every Pod creation of traces recorded from the real jobcontroller + podtaskexecutor (TLC behaviours replayed with state comparison, seeded random runs, drain).",
    "C09": "TLC checks on the JobLife design spec, with a fault or crash placed after every API call of a pass, that recorded tasks are kept, never marked lost/finished while their Pod is alive, foreign Pods are never adopted and end in AdmissionError, and that at quiescence every owned Pod is listed; the same formulas are evaluated on traces of the real controller under injected write faults (rejected and applied-but-error), crash/restart and cache lag.",
    "C10": "TLC checks on the JobLife design spec and on recorded traces of the real controller that a Success/Failed result is implied by the kubelet ground truth under the completion strategy, that recorded task results equal the Pods' real outcomes, that no owned task is alive when the Job first becomes finished, and that at the drained end every decided Job has reached its result and every undecided one has a live attempt.",
    "C11": "TLC evaluates status coherence (one condition, state/phase/counters consistent with tasks) on every logged Job version and monotonicity (startTime, finished, result, finish time, task timestamps, createdTasks) on every pair of consecutive versions, on the design spec and on all traces recorded from the real controller (user edits after finish are the only exemption, tracked by a ghost).",
    "C12": "A kill timestamp that has passed is never changed (the user's edits go through the real validating webhook; before it passes it may be moved or removed and the controller must follow). TLC checks that every controller-issued delete of a live task is justified (kill time reached, pending timeout reached in the pass's view, Job deleting, strategy decided in truth), that force deletion respects its timeout and the forbid switch, and that at the drained end kill and pending-timeout histories have completed; on the design spec exhaustively and on traces of the real controller with every kubelet behaviour.",
    "C13": "TLC checks that a Job leaves the API only when no task named in its status exists, that a TTL delete is never earlier than finish+TTL (job value or configured default) and only for decided Jobs, and that deletion/TTL complete at the drained end; on the JobLife design spec and on traces of the real controller.",
}
LEVEL_TEXT.update({
    "C01": "TLC exhaustively checks on the Cron design spec (schedule heap, worker pass with flush, cap and pop loop, informer handlers, cache lag, restart) that every pass requests exactly the due times of the schedule version it knows: never early, inside the window, strictly after the last request, contiguous, capped at the missed-schedule limit and then resuming from the present, with the heap following the schedule; TLC then evaluates the same closed form on every pass of traces recorded from the real CronWorker + InformerWorker + cronschedule (TLC behaviours replayed with state comparison; seeded random populations of 1-4 JobConfigs with 5/7-field, multi-expression and hashed expressions, time zones, windows, stalls and sub-minute clock offsets), against a pointwise due-set oracle that does not use furiko's iteration logic; heap order and name index are checked on every logged state.",
    "C02": "TLC checks at-most-one Job per (JobConfig, schedule time) and request-served-at-quiescence on the design spec with duplicate requests, rate-limited retries, a lagging Job cache, rejected creates and crash/restart between request and creation; on traces of the real cron Reconciler (through the real webhooks and a name-unique simulated API) TLC checks the same, plus name = f(JobConfig, time), schedule-time annotation, single controller owner reference, UID label and the work-queue key round trip (one JobConfig name contains dots).",
    "C03": "TLC checks on the design spec and on traces of the real controller, for create / update / enable / disable / window change / delete / re-create interleaved with ticks, stalls and deliveries, that after a delivered change a pass requests only times of the new schedule later than the change, nothing for a disabled, unscheduled or deleted JobConfig, and that after the pass the heap holds the first due time of the schedule the controller knows - without a restart.",
    "C04": "TLC checks on the design spec (every restart instant, persisted lastScheduled written by the status controller, lastUpdated stamped by the webhook, windows, downtime shorter and longer than the threshold) and on traces of freshly started real CronWorkers that the heap after a start is the first due time after max(lastScheduled, start - maxDowntime, lastUpdated, notBefore) (start time itself when never scheduled) and that the first pass requests exactly the due times after that reference, capped at the limit, never one at or before lastScheduled.",
})
LEVEL_TEXT["C19"] = "TLC exhaustively checks on the DynConfig design spec (loader caches replaced only by updates that parse as a whole, ordered field-wise merge with override, decode, last-known-good per configuration name) that a source is never partially applied, that a decodable read is the field-wise layering of the current contents including zero values, that an undecodable read returns exactly the last successful value (an error only if there never was one) and never the wrongly typed value; TLC then checks the same layering and last-known-good formulas on traces of the real ConfigManager + DefaultsLoader + ConfigMapLoader + SecretLoader read through ContextConfigs.Jobs/JobConfigs/Cron, for TLC-generated update/read sequences (abstract fields mapped onto the 11 concrete fields in rotation) and seeded random sequences over all fields with zero, non-zero, wrongly typed and unparsable contents in either source."
LEVEL_TEXT["C20"] = "The design specs of the three system modules (Cron with its reconciler, JobQueue, JobLife) have fault actions at every API call and crash/restart; TLC checks their safety invariants and quiescent-state goals (request served, due Job started, decided Job finished, kill/deletion/TTL completed) with faults enabled. On the real controllers, every replayed TLC behaviour and seeded random run injects rejected writes (and applied-but-error writes, crashes) through the simulated API, drives the real retry path (reconciler.Controller work loop: rate-limited requeue for ever), ends with a drain to quiescence and a livelock budget; TLC's monitors then evaluate all safety formulas along the run and all convergence goals at the drained end, and this check reports those that fail after an injected fault."
LEVEL_TEXT["C14"] = "A functional TLA+ specification (Parallel.tla) defines the expansion of a parallelism spec (0..N-1, the listed keys, the cartesian product with sorted keys and the last key fastest), when an input can have distinct indexes at all, and the variables of an index; TLC enumerates every spec up to the configured bounds (counts, key lists with duplicates / prefixes / empty strings, matrices up to 3 keys x 2 values), checks the specification's own size and distinctness laws on each, and every enumerated case is evaluated on the real GenerateIndexes (repeated, order determinism), HashIndex, GenerateTaskName, NewPod (substituted task.index_* variables), GetParallelStatus (one status slot per index) and ValidateParallelismSpec; TLC then judges the observations against the specification (expansion equality, own variables, admission must reject undistinguishable inputs, accepted => distinct hash / task name / status slot)."
LEVEL_TEXT["C18"] = "A functional TLA+ specification (Options.tla) defines Eval(option, submitted value) for the five option types (default exactly when no value was given, trimming, required, allowed values unless custom, multi joining, bool formats, date parsing), Default(option), and Subst (highest-priority source per variable, reserved unknowns empty, other text untouched); TLC enumerates option configs x submitted values (672 cases) and substitution-source subsets (32), checks the specification's own laws (default agrees, null = absent, constraints) and each case is evaluated on the real EvaluateOptions / MakeDefaultOptions through the webhook's JSON decoding, or on the real pipeline JobConfig -> Job mutating webhook (configName, optionValues, substitutions) -> NewPod (image, args, env), 25 times each; TLC judges outcome equality and determinism."
LEVEL_TEXT["C16"] = "A functional TLA+ specification (Admission.tla) defines the defaulted object of a Job request as a function of which optional fields are present (type, TTL, template, maxAttempts, pending timeout, parallelism strategy, restart policy, finalizers) and of the dynamic-config defaults, the result of configName expansion (owner reference, UID label and template always the JobConfig's; its concurrency policy only when none was given; explicit substitutions over option values over JobConfig defaults; submitted labels over template labels), and the lastUpdated stamping rule for create / schedule changed / unchanged x user-supplied lastUpdated; TLC enumerates ~16 800 requests, checks that defaulting is a fixpoint on the specification, and every case is sent as a raw AdmissionRequest (optional fields really absent) through the real mutating (and for configName also validating) webhooks, the patch applied with the API server's JSON-patch library; TLC judges defaulted object = Mutate(case), second pass = first, patch applies and equals the typed defaulted object."
LEVEL_TEXT["C17"] = "The same specification defines which single-field Job updates must be refused (task template, parallelism, attempts, retry delay, type, option values, substitutions, JobConfig UID label always; start policy once started; kill timestamp once passed) and the implication chain accepted => loadable by the cron scheduler => bumpable => instantiable => the Job passes defaulting and validation => task objects can be built; TLC enumerates every (field, changed, how, started, kill passed) update and a corpus of 2 065 cron schedules (34 expression shapes incl. H forms, macros, L/W/#, ?, year-bounded and never-matching ones x 15 time-zone forms x 2 formats x hashing on/off, multi-expression lists); each update goes through the real validating webhook and each corpus element through the real JobConfig webhooks, cronschedule.New / Bump, NewJobFromJobConfig, the Job webhooks and NewPod; TLC compares the decisions."
_STATUS_TEXT = (" A functional TLA+ specification of the status derivation chain (Status.tla: Pod -> task status -> recorded TaskRef with retained timestamps and DeletedStatus -> "
                "per-index status -> condition with the deletion override -> coarse state and phase) is checked by TLC on 28 756 enumerated cases (Pod shapes x existing refs; Job context x strategy x maxAttempts x "
                "recorded refs per index) against the laws this property demands of it, and every case is evaluated on the real PodTask.GetTaskRef, GenerateTaskRefs and UpdateJobStatusFromTaskRefs; TLC judges the laws on the real outputs "
                "(and reports any difference from the specification's functions as conformance drift).")
LEVEL_TEXT["C10"] += _STATUS_TEXT
LEVEL_TEXT["C11"] += _STATUS_TEXT
LEVEL_TEXT["C13"] += _STATUS_TEXT + " For this property the chain supplies the finish time the TTL counts from: it must be the latest finish time among the Job's tasks."
DESIGN_REF = {p: "DESIGN.md section 4 (%s)" % p for p in ["C%02d" % i for i in range(1, 21)]}
TECH_FUN = "explicit TLA+ functional specification; TLC enumerates the case space (one state per case, the specification's own laws as invariants); every case is evaluated on the real code and a log-driven TLA+ monitor judges the observations against the specification"
NOTE_FUN = ("Trusted: TLC, the Json/IOUtils community modules, Go runtime, the harness's concretisation of abstract cases into real objects / requests and its projection of results. "
            "Bounded: the enumerated value classes; inputs outside them are not explored.")
TECHNIQUE = {p: TECH_FUN for p in ("C14", "C16", "C17", "C18")}
TECHNIQUE["C19"] = "explicit TLA+ spec model-checked with TLC + trace validation of the real configuration manager and loaders (TLC-generated update/read sequences replayed, seeded random sequences, log-driven TLA+ monitor)"
TECHNIQUE["C20"] = "explicit TLA+ specs with fault and crash actions model-checked with TLC + trace validation of the real controllers under injected API faults and crashes (drain to quiescence, log-driven TLA+ monitors)"
LEVEL_NOTE = {p: NOTE_FUN for p in ("C14", "C16", "C17", "C18")}
ENGINE_TEXT = "TLA+ specs in spec/ checked by TLC; Go harness in harness/ runs the real controllers in a deterministic simulated world; spec/trace monitors judge recorded traces"
NOT_APPLICABLE = {}
