"""Module and property registry for bin/check (one source of truth for tiers)."""

# ---------------------------------------------------------------- JobQueue
JQ_HCFG = {"NJC": 1, "MaxC": [1], "MaxJobs": 3}

JOBQUEUE = {
    "name": "jobqueue",
    "vh": "jobqueue",
    "design": {
        "quick": [
            {"module": "JobQueue_MC.tla", "cfg": "JobQueue_MC_core.cfg", "timeout": 600},
            {"module": "JobQueue_MC.tla", "cfg": "JobQueue_MC_env.cfg", "timeout": 600},
            {"module": "JobQueue_MC.tla", "cfg": "JobQueue_MC_crash.cfg", "timeout": 600},
            {"module": "JobQueue_MC.tla", "cfg": "JobQueue_MC_indep.cfg", "timeout": 600},
            {"module": "JobQueue_MC.tla", "cfg": "JobQueue_MC_postpone_small.cfg", "timeout": 600},
            {"module": "JobQueue_MC.tla", "cfg": "JobQueue_MC_jc.cfg", "timeout": 600},
        ],
        "thorough": [
            {"module": "JobQueue_MC.tla", "cfg": "JobQueue_MC_core.cfg", "timeout": 900},
            {"module": "JobQueue_MC.tla", "cfg": "JobQueue_MC_env.cfg", "timeout": 900},
            {"module": "JobQueue_MC.tla", "cfg": "JobQueue_MC_crash.cfg", "timeout": 1500},
            {"module": "JobQueue_MC.tla", "cfg": "JobQueue_MC_indep.cfg", "timeout": 1500},
            {"module": "JobQueue_MC.tla", "cfg": "JobQueue_MC_postpone.cfg", "timeout": 1500},
            {"module": "JobQueue_MC.tla", "cfg": "JobQueue_MC_jc.cfg", "timeout": 1500},
        ],
    },
    "sim": {
        "quick": [{"module": "JobQueue_Sim.tla", "cfg": "JobQueue_Sim.cfg", "num": 300, "depth": 41, "harness_cfg": JQ_HCFG}],
        "thorough": [{"module": "JobQueue_Sim.tla", "cfg": "JobQueue_Sim.cfg", "num": 4000, "depth": 41, "harness_cfg": JQ_HCFG},
                     {"module": "JobQueue_Sim.tla", "cfg": "JobQueue_Sim_jc.cfg", "num": 2000, "depth": 51,
                      "harness_cfg": dict(JQ_HCFG, JCSync=True), "flags": []}],
    },
    "harness": {
        "quick": [
            {"name": "random", "args": ["jobqueue", "-mode", "random", "-seed", "{seed}", "-runs", "150", "-steps", "90"]},
            {"name": "random-jcsync", "args": ["jobqueue", "-mode", "random", "-seed", "{seed}", "-runs", "100", "-steps", "90", "-jcsync"]},
        ],
        "thorough": [
            {"name": "random", "args": ["jobqueue", "-mode", "random", "-seed", "{seed}", "-runs", "3000", "-steps", "110"]},
            {"name": "random-jcsync", "args": ["jobqueue", "-mode", "random", "-seed", "{seed}", "-runs", "2000", "-steps", "110", "-jcsync"]},
            {"name": "random-storelag", "args": ["jobqueue", "-mode", "random", "-seed", "{seed}", "-runs", "1500", "-steps", "110", "-storelag"]},
            {"name": "random-applied", "args": ["jobqueue", "-mode", "random", "-seed", "{seed}", "-runs", "1500", "-steps", "110", "-applied"]},
        ],
    },
    "monitor": {"module": "MonJobQueue.tla", "cfg": "MonJobQueue.cfg"},
}

MODULES = {"jobqueue": JOBQUEUE}

PROPS = {
    "C05": {"modules": ["jobqueue"], "assumptions": [
        "TLC, the Json/IOUtils community modules, and the harness's SimAPI semantics (resourceVersion conflicts, status sub-resource, no-op updates) are trusted",
        "Jobs carrying the JobConfig UID label without an owner reference are outside the modelled input class"]},
    "C06": {"modules": ["jobqueue"], "assumptions": ["FIFO is judged against what the pass saw at its SyncBegin (knowledge lag, DESIGN 3.7)"]},
    "C07": {"modules": ["jobqueue"], "assumptions": ["AddAfter durations are not interpreted: a deferred re-sync may fire at any time once armed"]},
    "C15": {"modules": ["jobqueue"], "assumptions": [
        "lastScheduled/lastExecuted must cover Jobs that were in the cache of a jobconfigcontroller pass that ended successfully (DESIGN 3.7: what a status controller can know)",
        "the JobConfigs of this module have no cron schedule, so the expected idle state is Ready (ReadyEnabled/ReadyDisabled are exercised in the cron module)"]},
}

FORMULAS = {
    "C05": ["C05_Admission"],
    "C06": ["C06_Fifo", "C06_EnqueueNeverRefused", "C06_AllowNeverRefused", "C06_RefusedOnlyAtLimit", "C06_NoStuck"],
    "C07": ["C07_NotEarly", "C07_NotEarlyStep", "C07_IndependentStarts", "C07_RefusedOnlyWhenDue"],
    "C15": ["C15_Exact", "C15_Monotone", "C15_Covers"],
}


def formulas_of(prop):
    return FORMULAS.get(prop, [])
