CONSTANTS JCs = {1} Horizon = 6 Ids = {0,1,2} Windows <- W1 MaxMissed = 2 MaxDown = 3 MaxOps = 2 MaxLag = 2 MaxFaults = 1 MaxRestarts = 1 MaxTick = 3
  Pols = {"Allow"} PreBoot = TRUE WithRecon = FALSE Workers = {1} Relists = TRUE
SPECIFICATION Spec
INVARIANTS TypeOK C02_AtMostOne C02_Requested C20_Served
PROPERTIES C01_C03_C04_Pass C04_BootHeap
CHECK_DEADLOCK FALSE
