\* one JobConfig, the JobConfig watch may break: a deletion seen only through the re-list
CONSTANTS JCs = {1} Horizon = 8 Ids = {0,1,2} Windows <- W0 MaxMissed = 2 MaxDown = 3 MaxOps = 3 MaxLag = 2 MaxFaults = 0 MaxRestarts = 0 MaxTick = 2
  Pols = {"Allow"} PreBoot = FALSE WithRecon = TRUE Workers = {1} Relists = TRUE D = 45 K = 20 Goals = {7}
SPECIFICATION GSpec
VIEW GView
INVARIANTS Goal7 Stop
CHECK_DEADLOCK FALSE
