\* force deletion forbidden, nodes go down, kill now, fresh caches
CONSTANTS N = 2 MaxAtt = 2 Delay = 1 Strategy = "AllSuccessful" PT = 2 FD = 2 TTL = 2 Forbid = TRUE Foreign = FALSE MaxTime = 8 MaxEvq = 3 MaxFaults = 2 MaxCrash = 0 Fresh = TRUE KillDelays = {0} KillEdits = {} UserDeletes = FALSE ExtDeletes = FALSE NodeDowns = TRUE
 Rejects = FALSE
 Holds = FALSE Invalids = FALSE WatchBreaks = FALSE D = 48
SPECIFICATION SSpec
INVARIANT EmitDone
CHECK_DEADLOCK FALSE
