---- MODULE MonCron ----
\* Log-driven monitor for the Cron module (DESIGN.md 3.3, section 4 C01-C04):
\* the behaviour is the sequence of abstract states logged while the real
\* CronWorker / InformerWorker / cron Reconciler ran in the simulated world.
\* Times are seconds since the base instant. The only state added here are
\* ghosts computed from event labels:
\*   dues    the due-set (pointwise oracle, window applied) of every schedule version announced by a UserSet line
\*   lo[n]   a request for JobConfig n must be later than this (last request / last pass / lastUpdated of a delivered change / restart reference)
\*   req[n]  every due time later than this and not after the pass's clock must be requested by the pass
\*   kind[n] which property the current epoch of n belongs to: C04 first pass after a start, C03 after a delivered change, else C01
\*   dirty   JobConfigs whose schedule-relevant cache entry changed since the last pass
\*   reqs    requests of the current controller generation, jobsEver every (JobConfig, schedule time) that ever had a Job
EXTENDS Integers, Sequences, FiniteSets, TLC, Json, IOUtils

Trace == ndJsonDeserialize(IOEnv.VERIF_TRACE)
N == Len(Trace)
HorizonSec == 6300
MaxEnqueued == 20    \* built-in default of maxEnqueuedJobs
Names == {"jc1", "jc2.v1.x", "jc3", "jc4"}

VARIABLES l, dues, lo, req, kind, dirty, reqs, allreq, skips, jobsEver, hf, viol
vars == <<l, dues, lo, req, kind, dirty, reqs, allreq, skips, jobsEver, hf, viol>>

Range(f) == {f[x] : x \in DOMAIN f}
Min(S) == CHOOSE x \in S : \A y \in S : x <= y
Max(S) == CHOOSE x \in S : \A y \in S : y <= x
Max2(a, b) == IF a >= b THEN a ELSE b
\* any injected fault or crash so far in this run (C20 attribution)
IsFault(e) == ("f" \in DOMAIN e.l /\ e.l.f \notin {"", "ok"}) \/ e.ev \in {"CrashRestart", "Restart", "Crash"}
Fail(name, ok) == IF ok THEN {} ELSE {name}

DueOf(v) == UNION {x.s : x \in {y \in dues : y.v = v}}
InCache(st, n) == n \in DOMAIN st.cache /\ st.cache[n].ex
Sched(st, n) == InCache(st, n) /\ st.cache[n].en /\ st.cache[n].ver # -1
\* (lastUpdated is part of it: the informer handler flushes when it differs, e.g. when a re-list jumps over intermediate versions
\*  and lands on the same schedule with a newer stamp)
SchedKey(c) == <<c.ex, c.uid, c.ver, c.lu>>
HeapPos(st, n) == {i \in 1..Len(st.hnames) : st.hnames[i] = n}
InHeap(st, n) == HeapPos(st, n) # {}
HeapPrio(st, n) == st.hprio[CHOOSE i \in HeapPos(st, n) : TRUE]

\* reference time of cronschedule.New, as C04 states it
InitRef(o, now, md) ==
    LET a == IF o.ls >= 0 THEN Max2(o.ls, now - md) ELSE now
        b == IF o.lu >= 0 /\ o.lu > a THEN o.lu ELSE a
    IN IF o.nbf >= 0 /\ b < o.nbf THEN o.nbf - 1 ELSE b

Contig(F, D) == F = {} \/ \A d \in D : (Min(F) < d /\ d < Max(F)) => d \in F
FiredSeq(e, n) == SelectSeq(e.fired, LAMBDA g : g.jc = n)
FiredOf(e, n) == {g.t : g \in Range(FiredSeq(e, n))}

\* ---- one Work pass: p = state before, s = state after, e = the logged line
PassFails(p, s, e, n) ==
    LET now0 == p.now
        MM == p.maxmiss
        c == p.cache[n]
        sch == Sched(p, n)
        D == IF sch THEN DueOf(c.ver) ELSE {}
        isd == n \in dirty
        lo1 == IF isd /\ InCache(p, n) /\ c.lu >= 0 THEN c.lu ELSE lo[n]
        req1 == IF isd THEN now0 ELSE req[n]
        K == IF isd THEN "C03" ELSE kind[n]
        fs == FiredSeq(e, n)
        F == FiredOf(e, n)
        R == {d \in D : req1 < d /\ d <= now0}
        nx == {d \in D : d > now0}
    IN   Fail(K \o "_NeverEarly", \A t \in F : t <= now0)
    \cup Fail(K \o "_OnSchedule", sch => F \subseteq D)
    \cup Fail(K \o "_Stops", ~sch => F = {})
    \cup Fail(K \o "_Once", \A t \in F : t > lo1)
    \cup Fail(K \o "_InOrder", \A i, j \in 1..Len(fs) : i < j => fs[i].t < fs[j].t)
    \cup Fail(K \o "_Cap", Cardinality(F) <= MM)
    \cup Fail(K \o "_NoGap", sch => /\ Contig(F, {d \in D : d <= now0})
                                     /\ IF Cardinality(F) < MM THEN R \subseteq F ELSE (R # {} => Min(F) <= Min(R)))
    \cup Fail(K \o "_HeapFollows",
              /\ (sch /\ nx # {}) => (InHeap(s, n) /\ HeapPrio(s, n) = Min(nx))
              /\ (InCache(p, n) /\ ~sch) => ~InHeap(s, n)
              \* a JobConfig that the controller's cache no longer holds (its deletion was delivered, by an event or by a tombstone) is not scheduled
              /\ (~InCache(p, n) /\ ~InCache(s, n)) => ~InHeap(s, n))
    \cup Fail("C02_KeyRoundTrip", \A g \in Range(fs) : g.keyok)

\* heap right after a start: the first request time is the first due time after the C04 reference
BootFails(s, n) ==
    LET o == s.cache[n]
        ref == InitRef(o, s.now, s.maxdown)
        D == IF Sched(s, n) THEN DueOf(o.ver) ELSE {}
        nx == {d \in D : d > ref}
    IN Fail("C04_HeapFollows", /\ (Sched(s, n) /\ nx # {}) => (InHeap(s, n) /\ HeapPrio(s, n) = Min(nx))
                               /\ (InCache(s, n) /\ ~Sched(s, n)) => ~InHeap(s, n))

\* ---- every state
JobKeys(st) == {<<j.jc, j.sched>> : j \in Range(st.jobs)}
StateFails(e) ==
    LET s == e.st IN
         Fail("C02_AtMostOne", \A k \in JobKeys(s) : Cardinality({j \in Range(s.jobs) : <<j.jc, j.sched>> = k}) = 1)
    \cup Fail("C02_Identity", \A j \in Range(s.jobs) : j.ownerok /\ j.labelok /\ j.nameok /\ j.sched >= 0)
    \cup Fail("C01_HeapIndex",
              /\ Len(s.hnames) = Len(s.hprio)
              /\ \A i, j \in 1..Len(s.hnames) : i # j => s.hnames[i] # s.hnames[j]
              /\ \A i \in 1..Len(s.hnames) : s.hnames[i] \in DOMAIN s.hindex /\ s.hindex[s.hnames[i]] = i - 1
              /\ Cardinality(DOMAIN s.hindex) = Len(s.hnames)
              /\ \A i \in 2..Len(s.hprio) : s.hprio[i \div 2] <= s.hprio[i])
    \cup Fail("C20_Converges", e.ev # "DrainFailed")
    \* the run with injected faults ends with the same Jobs as the same workload without them
    \cup Fail("C20_SameOutcome", e.ev = "Twin" => Range(e.twina) = Range(e.twinb))
    \* objects in the informer cache are shared by all reconciler workers; a Job built from a JobConfig the controller wrote into
    \* can carry another worker's schedule time (the harness cannot interleave inside a segment, so it checks the enabling condition)
    \cup Fail("C02_SharedCacheIntact", s.mutated = <<>>)

\* the cron reconciler skips a schedule (concurrency policy Forbid) only when the store counts maxConcurrency active Jobs,
\* and creates a Job for a Forbid JobConfig only when it counted fewer
ActiveOf(st, n) == Cardinality({j \in Range(st.jobs) : j.jc = n /\ j.uid = st.api[n].uid /\ j.started /\ ~j.term})   \* of the current incarnation of the JobConfig
ForbidFails(p, s, e) ==
    Fail("C06_CronForbid", \A g \in Range(e.skipped) : \/ /\ p.cache[g.jc].pol = "Forbid"
                                                            /\ g.jc \in DOMAIN p.counter /\ p.counter[g.jc] + 1 > p.cache[g.jc].maxc
                                                         \/ p.cache[g.jc].stq >= MaxEnqueued)      \* or the queue-length limit (from the cached status)
\* ---- composition with the real job queue and jobconfig controllers (system mode)
Owned(st, j) == j.jc \in DOMAIN st.api /\ st.api[j.jc].ex /\ st.api[j.jc].uid = j.uid
SystemStepFails(p, s) ==
    Fail("C05_Admission", \A j \in Range(s.jobs) :
            (j.started /\ j.pol \in {"Forbid", "Enqueue"} /\ Owned(p, j) /\ \E q \in Range(p.jobs) : q.name = j.name /\ ~q.started)
               => ActiveOf(p, j.jc) < p.api[j.jc].maxc)
SystemFinalFails(s) ==
         Fail("C06_NoStuck", \A j \in Range(s.jobs) : (Owned(s, j) /\ ~j.started /\ ~j.term /\ ~j.adm) => (j.pol = "Enqueue" /\ ActiveOf(s, j.jc) >= s.api[j.jc].maxc))
    \cup Fail("C15_Exact", \A n \in DOMAIN s.api : s.api[n].ex =>
                 /\ s.api[n].sta = Cardinality({j \in Range(s.jobs) : j.jc = n /\ j.uid = s.api[n].uid /\ j.labelok /\ j.started /\ ~j.term})
                 /\ s.api[n].stq = Cardinality({j \in Range(s.jobs) : j.jc = n /\ j.uid = s.api[n].uid /\ j.labelok /\ ~j.started /\ ~j.term}))
\* a Job that appears was requested for exactly that JobConfig and time
StepFails(p, s, rq) ==
    Fail("C02_Requested", \A j \in Range(s.jobs) : (\A q \in Range(p.jobs) : q.name # j.name) => \E f \in rq : f.jc = j.jc /\ f.t = j.sched)

\* at the drained end: every request of this controller generation was served (a Job exists or existed), legitimately skipped, or its JobConfig is gone / replaced
FinalFails(s, rq, sk, je) ==
    Fail("C02_Served", \A f \in rq : \/ <<f.jc, f.t>> \in je
                                     \/ <<f.jc, f.t>> \in sk
                                     \/ ~s.api[f.jc].ex \/ s.api[f.jc].uid # f.uid)
    \cup Fail("C20_Quiescent", s.quiet)

Init == /\ l = 1 /\ dues = {} /\ lo = [n \in Names |-> 0] /\ req = [n \in Names |-> 0] /\ kind = [n \in Names |-> "C04"]
        /\ dirty = {} /\ reqs = {} /\ allreq = {} /\ skips = {} /\ jobsEver = {} /\ hf = FALSE /\ viol = {}

Next ==
    /\ l <= N
    /\ l' = l + 1
    /\ LET e == Trace[l]
           s == e.st
           reset == e.ev = "Reset"
           p == IF l = 1 \/ reset THEN s ELSE Trace[l - 1].st
           NS == Names \cap DOMAIN s.cache
           boot == e.ev \in {"Boot", "Restart"}
           work == e.ev = "Work"
           du == IF reset THEN {} ELSE IF e.newver >= 0 THEN dues \cup {[v |-> e.newver, s |-> Range(e.due)]} ELSE dues
           pf == IF work THEN [n \in NS |-> PassFails(p, s, e, n)] ELSE [n \in NS |-> {}]
           newreq == {[jc |-> g.jc, t |-> g.t, uid |-> p.cache[g.jc].uid] : g \in Range(e.fired)}
           rq == IF reset \/ boot THEN {} ELSE reqs \cup newreq
           ar == IF reset THEN {} ELSE allreq \cup newreq
           sk == IF reset THEN {} ELSE skips \cup {<<g.jc, g.t>> : g \in Range(e.skipped)}
           je == IF reset THEN {} ELSE jobsEver \cup JobKeys(s)
           fs == StateFails(e)
                 \cup (IF reset \/ l = 1 THEN {} ELSE StepFails(p, s, ar) \cup ForbidFails(p, s, e) \cup (IF s.system THEN SystemStepFails(p, s) ELSE {}))
                 \cup (IF e.ev = "Final" /\ s.system THEN SystemFinalFails(s) ELSE {})
                 \cup (IF work THEN UNION {pf[n] : n \in NS} ELSE {})
                 \cup (IF boot THEN UNION {BootFails(s, n) : n \in NS} ELSE {})
                 \cup (IF e.ev \in {"Final", "DrainFailed"} THEN FinalFails(s, rq, sk, je) \ (IF e.ev = "Final" THEN {} ELSE {"C20_Quiescent"}) ELSE {})
       IN /\ dues' = du
          /\ dirty' = IF reset \/ boot \/ work THEN {}
                      ELSE dirty \cup {n \in NS : n \in DOMAIN p.cache /\ SchedKey(p.cache[n]) # SchedKey(s.cache[n])}
          /\ lo' = [n \in Names |-> IF reset THEN 0
                                    ELSE IF boot THEN (IF InCache(s, n) THEN InitRef(s.cache[n], s.now, s.maxdown) ELSE s.now)
                                    ELSE IF work THEN p.now ELSE lo[n]]
          /\ req' = [n \in Names |-> IF reset THEN 0
                                     ELSE IF boot THEN (IF InCache(s, n) THEN InitRef(s.cache[n], s.now, s.maxdown) ELSE s.now)
                                     ELSE IF work THEN p.now ELSE req[n]]
          /\ kind' = [n \in Names |-> IF reset \/ boot THEN "C04"
                                      ELSE IF work /\ n \in NS THEN
                                           (IF n \in dirty \/ kind[n] = "C03" THEN (IF FiredOf(e, n) # {} /\ pf[n] = {} THEN "C01" ELSE "C03") ELSE "C01")
                                      ELSE IF ~work /\ n \in NS /\ n \in DOMAIN p.cache /\ SchedKey(p.cache[n]) # SchedKey(s.cache[n]) THEN "C03"
                                      ELSE kind[n]]
          /\ reqs' = rq /\ allreq' = ar /\ skips' = sk /\ jobsEver' = je
          /\ hf' = IF e.ev = "Reset" THEN FALSE ELSE hf \/ IsFault(e)
          /\ viol' = viol \cup {r \in {[f |-> f, line |-> l, run |-> e.run, ev |-> e.ev, faulted |-> e.faulted, af |-> (hf \/ IsFault(e))] : f \in fs} : ~\E v \in viol : v.f = r.f /\ v.run = r.run}   \* first failure of a formula in a run only
Spec == Init /\ [][Next]_vars

Report == (l = N + 1) => PrintT(<<"VERDICT", N, ToJson(viol)>>)
====
