---- MODULE MonJobLife ----
\* Log-driven monitor for the JobLife module (C08-C13, and the JobLife part of
\* C20): the behaviour is the sequence of abstract states logged while the real
\* jobcontroller ran, one line per harness step (environment step, informer
\* delivery, SyncBegin, or one segment of a pass ending at an API call). Ghosts:
\*   pass     what the pass in flight could see at its SyncBegin (clock, Job cache, Pod cache)
\*   edited   the user set killTimestamp or deleted the Job after it had finished
\*   udel     the user deleted the Job
\*   ttlAt    instant of a successful controller-issued Job delete; ttlLB the latest finish time, at that instant, among the
\*            tasks the controller could know of
\*   listed   tasks ever listed in a Job status that reached the API (what the controller has recorded)
\*   succRec  indexes whose success was ever recorded in the API status
\*   doneAt   first instant at which the Job was over in truth (decided or killed, no owned Pod alive)
\*   pass.stale / pass.skew   witnesses of the known cache-skew histories, evaluated for the pass in flight
\*   taint    set when the primary manifestation of a known finding has occurred in this run (its consequences follow)
\*   admTruth a create was refused because a foreign object occupies the task name (the Job is destined to AdmissionError)
\* All formulas come from JobLifeProps. Failures are accumulated with line, run
\* and witness flags and printed once.
EXTENDS Integers, Sequences, FiniteSets, TLC, Json, IOUtils, JobLifeProps

Trace == ndJsonDeserialize(IOEnv.VERIF_TRACE)
N == Len(Trace)

VARIABLES l, pass, edited, udel, ttlAt, ttlLB, ttlVK, taint, admTruth, listed, succRec, doneAt, hf, viol
vars == <<l, pass, edited, udel, ttlAt, ttlLB, ttlVK, taint, admTruth, listed, succRec, doneAt, hf, viol>>

NoJob == [ex |-> FALSE, started |-> FALSE, st |-> 0, kill |-> 0, del |-> FALSE, fz |-> FALSE, hold |-> FALSE, adm |-> FALSE, phase |-> "", state |-> "",
          conds |-> 0, kind |-> "", result |-> "", fints |-> 0, created |-> 0, running |-> 0, refs |-> <<>>, rv |-> 0]
NoPass == [now0 |-> 0, j |-> NoJob, p |-> <<>>, stale |-> FALSE, skew |-> FALSE]

\* any injected fault or crash so far in this run (C20 attribution)
IsFault(e) == ("f" \in DOMAIN e.l /\ e.l.f \notin {"", "ok"}) \/ e.ev \in {"CrashRestart", "Restart", "Crash", "FailDeletes"}
Fail(name, ok) == IF ok THEN {} ELSE {name}
EverOf(s) == {[name |-> p.name, idx |-> p.idx, retry |-> p.retry] : p \in Range(s.ever)}
SuccOf(s) == Range(s.succ)
NoKube(s) == Range(s.nokube)
\* latest finish time among the tasks the controller can know of: recorded in a status that reached the API, or still existing
MaxFin(s, li, ps) == LET K == {x.name : x \in li} \cup Names(s.pods)
                     F == {q.fin : q \in {y \in Range(s.ever) : y.name \in K}} \cup {r.fin : r \in Range(s.job.refs)} \cup {q.fin : q \in Range(ps.p)} \cup {0}
                 IN CHOOSE m \in F : \A x \in F : x <= m

\* ---- witnesses of known histories, evaluated at SyncBegin on the state before the pass ----
\* Pod cache behind: an owned Pod exists in the API but is absent from the Pod cache the pass lists its tasks from (or the cache
\* still holds an earlier object of the same name)
WSkew(s) == \E p \in Mine(s.pods) : ~\E q \in Range(s.pcache) : q.name = p.name /\ q.uid = p.uid
\* Job cache behind the API: the pass works on a cached Job whose recorded task state (which tasks exist, which have
\* finished, with what result) is older than what the controller has already written to the API
RefKey(j) == {<<r.name, r.fin # 0, r.res>> : r \in Range(j.refs)}
WStale(s) == s.jcache.ex /\ s.job.ex /\ RefKey(s.jcache) # RefKey(s.job)

StateFails(e, sr) ==
    LET s == e.st  c == e.cfg  final == e.ev \in {"Final", "DrainFailed"} IN
         Fail("C08_OneLive", C08_OneLive(c, s.pods))
    \cup Fail("C09_NotLost", C09_NotLost(s.job, s.pods))
    \cup Fail("C09_NoForeignAdopt", C09_NoForeignAdopt(s.job, s.pods))
    \cup Fail("C10_SuccOnly", C10_SuccOnly(c, s.job, SuccOf(s)))
    \cup Fail("C10_FailOnly", C10_FailOnly(c, s.job, s.pods, EverOf(s), sr))
    \cup Fail("C10_RefMatchesTask", C10_RefMatchesTask(s.job, s.pods))
    \cup Fail("C11_Coherent", C11_Coherent(s.job))
    \cup Fail("C20_Converges", e.ev \notin {"DrainFailed", "Hang"})     \* the drain ran out of budget, or a pass blocked for good
    \* deadline goals hold at every quiet point of the drain (the clock has moved, the armed re-sync has fired, nothing is left to do)
    \cup (IF e.ev # "Quiet" THEN {} ELSE
             Fail("C10_Reaches", C10_ReachesAt(c, s.job, s.pods, NoKube(s), s.now))
        \cup Fail("C12_KillCompletes", C12_KillCompletesAt(c, s.job, s.pods, s.now, NoKube(s)))
        \cup Fail("C12_PendingCompletes", C12_PendingCompletesAt(c, s.job, s.pods, s.now, NoKube(s)))
        \cup Fail("C13_TTLEventually", C13_TTLEventually(c, s.job, s.now)))
    \cup (IF ~final THEN {} ELSE
             Fail("C09_Listed", C09_Listed(s.job, s.pods))
        \cup Fail("C09_ForeignEnds", C09_ForeignEnds(s.job, s.pods))
        \cup Fail("C10_Reaches", C10_Reaches(c, s.job, s.pods, NoKube(s)))
        \cup Fail("C10_Progress", C10_Progress(c, s.job, s.pods, s.now))
        \cup Fail("C12_KillCompletes", C12_KillCompletes(c, s.job, s.pods, s.now, NoKube(s)))
        \cup Fail("C12_PendingCompletes", C12_PendingCompletes(c, s.job, s.pods, s.now, NoKube(s)))
        \cup Fail("C13_DeletionCompletes", C13_DeletionCompletes(s.job, s.pods, NoKube(s)))
        \cup Fail("C13_TTLEventually", C13_TTLEventually(c, s.job, s.now)))

StepFails(e, p, ps, ed, ud, ta, tlb, li, da, srp, at, tvk) ==
    LET s == e.st  c == e.cfg  dels == Range(e.dels)
        known == li \cup {[name |-> q.name, idx |-> q.idx, retry |-> q.retry] : q \in Mine(p.pods)} IN
         Fail("C08_Order", C08_OrderStep(c, p.pods, s.pods, known))
    \cup Fail("C08_Delay", C08_DelayStep(c, p.pods, s.pods, ps, s.now))
    \cup Fail("C08_Gates", C08_GatesStep(c, p.pods, s.pods, ps, srp))
    \cup Fail("C09_Keep", C09_KeepStep(p.job, s.job))
    \cup Fail("C09_AdmOnlyForeign", e.ev = "Step" => C09_AdmOnlyForeignStep(p.job, s.job, at))
    \cup Fail("C10_NoLiveAtFinish", C10_NoLiveAtFinishStep(p.job, s.job, s.pods))
    \cup Fail("C11_Monotone", C11_MonotoneStep(p.job, s.job, ed))
    \cup Fail("C12_DeleteJustified", C12_DeleteJustifiedStep(c, dels, p.pods, s.pods, ps, s.now, EverOf(s), SuccOf(s)))
    \cup Fail("C12_ForceGate", C12_ForceGateStep(c, Range(e.fdels), p.pods, ps, s.now))
    \cup Fail("C12_KillSticky", C12_KillStickyStep(p.job, s.job, p.now))
    \cup Fail("C13_Order", C13_OrderStep(p.job, s.job, s.pods))
    \cup Fail("C13_OrderAll", C13_OrderAllStep(p.job, s.job, s.pods))
    \cup Fail("C13_TTLNotEarly", C13_TTLNotEarlyStep(c, p.job, s.job, ta, ud, da, tlb, tvk))

Init == l = 1 /\ pass = NoPass /\ edited = FALSE /\ udel = FALSE /\ ttlAt = 0 /\ ttlLB = 0 /\ ttlVK = 0 /\ taint = "" /\ admTruth = FALSE /\ listed = {} /\ succRec = {} /\ doneAt = 0 /\ hf = FALSE /\ viol = {}

Next ==
    /\ l <= N
    /\ l' = l + 1
    /\ LET e == Trace[l]
           s == e.st
           reset == e.ev = "Reset"
           p == IF l > 1 THEN Trace[l - 1].st ELSE s
           ps == IF reset THEN NoPass
                 ELSE IF e.ev = "SyncBegin" THEN [now0 |-> p.now, j |-> p.jcache, p |-> p.pcache, stale |-> WStale(p), skew |-> WSkew(p)]
                 ELSE pass
           ed == IF reset THEN FALSE ELSE edited \/ (e.ev \in {"UserKill", "UserRekill", "UserDelete"} /\ p.job.kind = "Finished")
           ud == IF reset THEN FALSE ELSE udel \/ e.ev = "UserDelete"
           ta == IF reset THEN 0 ELSE IF e.ev = "Step" /\ e.op = "delete/jobs" /\ e.err \in {"", "applied-but-error"} /\ ttlAt = 0 THEN s.now ELSE ttlAt
           tlb == IF reset THEN 0 ELSE IF ta # ttlAt THEN MaxFin(p, listed, ps) ELSE ttlLB
           tvk == IF reset THEN 0 ELSE IF ta # ttlAt THEN ps.j.kill ELSE ttlVK        \* the kill timestamp the deleting pass had in its cached Job
           at == IF reset THEN FALSE
                 ELSE admTruth \/ (e.ev = "Step" /\ e.op = "create/pods" /\ e.err = "AlreadyExists"
                                    /\ \E q \in Range(p.pods) : q.name = e.key /\ ~q.mine)
                               \/ (e.ev = "Step" /\ e.op = "create/pods" /\ e.err = "Invalid")     \* the API server refused the task for good
           recs == {[name |-> r.name, idx |-> r.idx, retry |-> r.retry] : r \in Range(s.job.refs)}
           li == IF reset THEN recs ELSE listed \cup recs
           sr == (IF reset THEN {} ELSE succRec) \cup {r.idx : r \in {x \in Range(s.job.refs) : x.res = "Succeeded"}}
           over == \/ /\ s.job.ex /\ s.job.started /\ ~\E q \in Mine(s.pods) : Alive(q)
                      /\ ((s.job.kill # 0 /\ s.job.kill <= s.now) \/ DecidedTruth(e.cfg, s.pods, EverOf(s), SuccOf(s)))
                   \/ (s.job.ex /\ s.job.started /\ (s.job.adm \/ at))   \* an admission error finishes the Job at once, whatever its other tasks do
                   \/ (s.job.ex /\ ~s.job.started /\ s.job.adm)      \* refused by the queue controller before it started: finished, no tasks
           da == IF reset THEN 0 ELSE IF doneAt = 0 /\ over THEN s.now ELSE doneAt
           fs == StateFails(e, sr) \cup (IF reset \/ l = 1 THEN {} ELSE StepFails(e, p, ps, ed, ud, ta, tlb, listed, da, succRec, at, tvk))
           \* primary manifestations of the known cache-skew findings taint the rest of the run
           inpass == e.ev \in {"SyncBegin", "Step"}
           \* the pass acted: it issued Pod deletes or a mutating call that took effect
           wrote == inpass /\ (Len(e.dels) > 0 \/ Len(e.fdels) > 0 \/ (e.op # "" /\ e.err \in {"", "applied-but-error"}))
           \* known cache-skew findings: a pass that began on a cache missing what the API already had went on to act
           \* (or to violate a formula); what it did, and what later passes make of it, is attributed to that finding
           tn == IF reset THEN ""
                 ELSE IF taint # "" THEN taint
                 ELSE IF inpass /\ ps.stale /\ (fs # {} \/ wrote) THEN "jobcache-stale"
                 ELSE IF inpass /\ ps.skew /\ (fs # {} \/ wrote) THEN "podcache-behind"
                 ELSE ""
       IN /\ pass' = ps /\ edited' = ed /\ udel' = ud /\ ttlAt' = ta /\ ttlLB' = tlb /\ ttlVK' = tvk /\ taint' = tn /\ admTruth' = at
          /\ listed' = li /\ succRec' = sr /\ doneAt' = da
          /\ hf' = IF e.ev = "Reset" THEN FALSE ELSE hf \/ IsFault(e)
          /\ viol' = viol \cup {r \in {[f |-> f, line |-> l, run |-> e.run, ev |-> e.ev, faulted |-> e.faulted, af |-> (hf \/ IsFault(e)),
                                 taint |-> tn, adm |-> at, foreign |-> e.cfg.foreign,
                                 \* the Job became finished with the result AdmissionError (a task was refused for good: adm) while other tasks of it are alive
                                 admres |-> (f = "C10_NoLiveAtFinish" /\ s.job.result = "AdmissionError"),
                                 \* the Job was complete for the creating pass only through tasks that exist in its Pod cache but are not recorded in the cached status
                                 unrec |-> \/ (f = "C08_Gates" /\ ps.j.ex /\ DecidedView(e.cfg, ps) /\ ~DecidedViewRec(e.cfg, ps))
                                           \* ... or the Job left while only tasks it never recorded still exist
                                           \/ (f = "C13_OrderAll" /\ C13_OrderStep(p.job, s.job, s.pods))] : f \in fs} : ~\E v \in viol : v.f = r.f /\ v.run = r.run}   \* first failure of a formula in a run only
Spec == Init /\ [][Next]_vars

Report == (l = N + 1) => PrintT(<<"VERDICT", N, ToJson(viol)>>)
====
