---- MODULE MonJobQueue ----
\* Log-driven monitor for the JobQueue module (DESIGN.md 3.3): the behaviour is
\* exactly the sequence of abstract states the real controllers logged; the only
\* state this module adds is the position, the ghost `pass` (clock and Job cache
\* at the last per-config SyncBegin) and the set of formula failures found so
\* far. The formulas are the ones of JobQueueProps, i.e. literally those checked
\* on the design by JobQueue_MC. Every failure is recorded with its line, so one
\* TLC run judges a whole batch of runs and attributes each failure to its
\* property id (the formula's prefix).
EXTENDS Integers, Sequences, FiniteSets, TLC, Json, IOUtils, JobQueueProps

Trace == ndJsonDeserialize(IOEnv.VERIF_TRACE)
N == Len(Trace)

VARIABLES l, pass, viol
vars == <<l, pass, viol>>

NoPass == [t0 |-> -1, view |-> <<>>]
MaxCOf(s) == [c \in 1..2 |-> IF ToString(c) \in DOMAIN s.maxc THEN s.maxc[ToString(c)] ELSE 1]

\* timers still armed at a quiet point must belong to Jobs that are not yet due
TimersNotDue(s) ==
    /\ \A c \in DOMAIN s.timer : s.timer[c] =>
          \E j \in DOMAIN s.api : Queued(s.api[j]) /\ ToString(s.api[j].jc) = c /\ s.api[j].sa > s.now
    /\ \A i \in 1..Len(s.itimer) :
          LET j == ToString(s.itimer[i]) IN s.api[j].sa > s.now \/ ~Queued(s.api[j])
Quiet(s) == s.quiet /\ TimersNotDue(s)
\* a drain phase that exhausted its step budget without injected faults: the system never quiesced.
\* The goals are then judged on the state it was left in, and the livelock itself is a C20 failure.
Stuck(e) == e.ev = "DrainFailed"

Fail(name, ok) == IF ok THEN {} ELSE {name}

\* formulas over one logged state
StateFails(e) ==
    LET s == e.st  mc == MaxCOf(s) IN
         Fail("C06_EnqueueNeverRefused", C06_EnqueueNeverRefused(s.api))
    \cup Fail("C06_AllowNeverRefused", C06_AllowNeverRefused(s.api))
    \cup Fail("C06_RefusedOnlyAtLimit", C06_RefusedOnlyAtLimit(s.api, mc))
    \cup Fail("C07_NotEarly", C07_NotEarly(s.api))
    \cup Fail("C06_NoStuck", (Quiet(s) \/ Stuck(e)) => C06_NoStuck(s.api, s.now, mc))
    \cup Fail("C07_IndependentStarts", (Quiet(s) \/ Stuck(e)) => C07_IndependentStarts(s.api, s.now))
    \cup Fail("C20_Converges", ~Stuck(e))
    \cup Fail("S_CounterNonNeg", \A c \in DOMAIN s.counter : s.counter[c] >= 0)

\* formulas over one logged step
StepFails(p, s, ps) ==
         Fail("C05_Admission", C05_AdmissionStep(p.api, s.api, MaxCOf(s)))
    \cup Fail("C06_Fifo", ps.t0 >= 0 => C06_FifoStep(p.api, s.api, ps))
    \cup Fail("C07_NotEarlyStep", C07_NotEarlyStep(p.api, s.api, s.now))
    \cup Fail("C11_StartTimeStable", C11_StartTimeStable(p.api, s.api))

Init == l = 1 /\ pass = NoPass /\ viol = {}

Next ==
    /\ l <= N
    /\ l' = l + 1
    /\ LET e == Trace[l]
           s == e.st
           reset == e.ev = "Reset"
           ps == IF reset THEN NoPass
                 ELSE IF e.ev = "SyncBegin" THEN [t0 |-> Trace[l - 1].st.now, view |-> Trace[l - 1].st.cache]
                 ELSE pass
           fs == StateFails(e) \cup (IF reset \/ l = 1 THEN {} ELSE StepFails(Trace[l - 1].st, s, ps))
       IN /\ pass' = ps
          /\ viol' = viol \cup {[f |-> f, line |-> l, run |-> e.run, ev |-> e.ev, faulted |-> e.faulted] : f \in fs}
Spec == Init /\ [][Next]_vars

\* printed once, in the last state
Report == (l = N + 1) => PrintT(<<"VERDICT", N, ToJson(viol)>>)
====
