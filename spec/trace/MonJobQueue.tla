---- MODULE MonJobQueue ----
\* Log-driven monitor for the JobQueue module (DESIGN.md 3.3): the behaviour is
\* exactly the sequence of abstract states the real controllers logged; the only
\* state this module adds is the position, the ghost `pass` (clock and Job cache
\* at the last per-config SyncBegin) and the set of formula failures found so
\* far. The formulas are the ones of JobQueueProps, i.e. literally those checked
\* on the design by JobQueue_MC. Every failure is recorded with its line, so one
\* TLC run judges a whole batch of runs and attributes each failure to its
\* property id (the formula's prefix).
EXTENDS Integers, Sequences, FiniteSets, TLC, Json, IOUtils, JobQueueProps

Trace == ndJsonDeserialize(IOEnv.VERIF_TRACE)
N == Len(Trace)

VARIABLES l, pass, seen, jpass, hf, sl, wb, viol
vars == <<l, pass, seen, jpass, hf, sl, wb, viol>>

NoPass == [t0 |-> -1, view |-> <<>>]
MaxCOf(s) == [c \in 1..2 |-> IF ToString(c) \in DOMAIN s.maxc THEN s.maxc[ToString(c)] ELSE 1]

\* an armed deferred re-sync whose deadline may have passed is pending work: quiet only if no queued Job of that JobConfig is due
TimersNotDue(s) ==
    /\ \A c \in DOMAIN s.timer : s.timer[c] =>
          \A j \in DOMAIN s.api : (Queued(s.api[j]) /\ ToString(s.api[j].jc) = c) => s.api[j].sa > s.now
    /\ \A i \in 1..Len(s.itimer) :
          LET j == ToString(s.itimer[i]) IN s.api[j].sa > s.now \/ ~Queued(s.api[j])
Quiet(s) == s.quiet /\ TimersNotDue(s)
\* a drain phase that exhausted its step budget without injected faults: the system never quiesced.
\* The goals are then judged on the state it was left in, and the livelock itself is a C20 failure.
Stuck(e) == e.ev = "DrainFailed"

\* any injected fault or crash so far in this run (C20 attribution)
IsFault(e) == ("f" \in DOMAIN e.l /\ e.l.f \notin {"", "ok"}) \/ e.ev \in {"CrashRestart", "Restart", "Crash"}
Fail(name, ok) == IF ok THEN {} ELSE {name}
SetOfIds(seq) == {ToString(seq[i]) : i \in 1..Len(seq)}

\* ---- C15 ghosts: the latest schedule / start time of the Jobs that a *successful* jobconfigcontroller pass had in its cache
SetOf(seq) == {ToString(seq[i]) : i \in 1..Len(seq)}
MaxOf(S) == IF S = {} THEN 0 ELSE CHOOSE m \in S : \A x \in S : x <= m
NoSeen == [c \in {"1", "2"} |-> [sch |-> 0, exe |-> 0]]
SeenIn(cache, c) == [sch |-> MaxOf({cache[j].sch : j \in {k \in DOMAIN cache : cache[k].ex /\ ToString(cache[k].jc) = c}} \cup {0}),
                     exe |-> MaxOf({cache[j].st : j \in {k \in DOMAIN cache : cache[k].ex /\ ToString(cache[k].jc) = c /\ cache[k].st # None}} \cup {0})]
Merge(a, b) == [sch |-> MaxOf({a.sch, b.sch}), exe |-> MaxOf({a.exe, b.exe})]

\* formulas over one logged state
StateFails(e) ==
    LET s == e.st  mc == MaxCOf(s) IN
         Fail("C06_EnqueueNeverRefused", C06_EnqueueNeverRefused(s.api))
    \cup Fail("C06_AllowNeverRefused", C06_AllowNeverRefused(s.api))
    \cup Fail("C06_RefusedOnlyAtLimit", C06_RefusedOnlyAtLimit(s.api, mc))
    \cup Fail("C07_NotEarly", C07_NotEarly(s.api))
    \cup Fail("C06_NoStuck", (Quiet(s) \/ Stuck(e)) => C06_NoStuck(s.api, s.now, mc))
    \cup Fail("C07_DueStarts", (Quiet(s) \/ Stuck(e)) => C07_DueStarts(s.api, s.now, mc))
    \cup Fail("C07_IndependentStarts", (Quiet(s) \/ Stuck(e)) => C07_IndependentStarts(s.api, s.now))
    \cup Fail("C20_Converges", ~Stuck(e))
    \cup Fail("C15_Exact", (s.jcsync /\ Quiet(s)) => \A c \in DOMAIN s.jcapi : C15_Exact(s.api, CHOOSE n \in 1..2 : ToString(n) = c, s.jcapi[c], SetOfIds))
    \cup Fail("S_CounterNonNeg", \A c \in DOMAIN s.counter : s.counter[c] >= 0)

\* C15: covers what successful passes saw (evaluated at quiet points with the ghost)
CoverFails(s, sn) ==
    Fail("C15_Covers", (s.jcsync /\ Quiet(s)) => \A c \in DOMAIN s.jcapi : s.jcapi[c].lastSch >= sn[c].sch /\ s.jcapi[c].lastExe >= sn[c].exe)

\* formulas over one logged step
StepFails(p, s, ps) ==
         Fail("C05_Admission", C05_AdmissionStep(p.api, s.api, MaxCOf(s)))
    \cup Fail("C06_Fifo", ps.t0 >= 0 => C06_FifoStep(p.api, s.api, ps))
    \cup Fail("C06_ForbidNotStartedAtLimit", C06_ForbidNotStartedAtLimitStep(p.api, s.api, MaxCOf(s)))
    \cup Fail("C07_NotEarlyStep", C07_NotEarlyStep(p.api, s.api, s.now))
    \cup Fail("C11_StartTimeStable", C11_StartTimeStable(p.api, s.api))
    \cup Fail("C07_RefusedOnlyWhenDue", C07_RefusedOnlyWhenDueStep(p.api, s.api, s.now))
    \cup Fail("C15_Monotone", \A c \in DOMAIN s.jcapi : c \in DOMAIN p.jcapi => C15_MonotoneStep(p.jcapi[c], s.jcapi[c]))

Init == l = 1 /\ pass = NoPass /\ seen = NoSeen /\ jpass = [c |-> "", v |-> [sch |-> 0, exe |-> 0]] /\ hf = FALSE /\ sl = FALSE /\ wb = FALSE /\ viol = {}

Next ==
    /\ l <= N
    /\ l' = l + 1
    /\ LET e == Trace[l]
           s == e.st
           reset == e.ev = "Reset"
           ps == IF reset THEN NoPass
                 ELSE IF e.ev = "SyncBegin" THEN [t0 |-> Trace[l - 1].st.now, view |-> Trace[l - 1].st.cache]
                 ELSE pass
           \* jobconfigcontroller pass: remember what it saw; credit it when the pass ends successfully
           jp == IF e.ev = "JSyncBegin" THEN [c |-> ToString(e.l.c), v |-> SeenIn(Trace[l - 1].st.cache, ToString(e.l.c))] ELSE jpass
           credit == \/ (e.ev = "JSyncBegin" /\ ~s.jsync.busy)
                     \/ (e.ev = "JStepWrite" /\ e.err = "")
           sn == IF reset THEN NoSeen
                 ELSE IF credit THEN [seen EXCEPT ![jp.c] = Merge(@, jp.v)] ELSE seen
           fs == StateFails(e) \cup CoverFails(s, sn) \cup (IF reset \/ l = 1 THEN {} ELSE StepFails(Trace[l - 1].st, s, ps))
       IN /\ pass' = ps /\ seen' = sn /\ jpass' = jp
          /\ hf' = IF e.ev = "Reset" THEN FALSE ELSE hf \/ IsFault(e)
          \* witness of the store-listener-lag history: a per-config pass read the active count while the store's listener
          \* still had undelivered Job events (client-go gives no order between the listeners of one informer)
          \* witness of the watch-break history: the Job watch broke in this run (the store saw a Job jump from not started to finished)
          /\ wb' = IF e.ev = "Reset" THEN FALSE ELSE wb \/ e.ev = "JobWatchBreak"
          /\ sl' = IF e.ev = "Reset" THEN FALSE ELSE sl \/ (e.ev = "StepCount" /\ l > 1 /\ Trace[l - 1].st.storeq > 0)
          /\ viol' = viol \cup {r \in {[f |-> f, line |-> l, run |-> e.run, ev |-> e.ev, faulted |-> e.faulted, af |-> (hf \/ IsFault(e)),
                                 wbreak |-> (wb \/ e.ev = "JobWatchBreak"),
                                 slag |-> (sl \/ (e.ev = "StepCount" /\ l > 1 /\ Trace[l - 1].st.storeq > 0))] : f \in fs} : ~\E v \in viol : v.f = r.f /\ v.run = r.run}   \* first failure of a formula in a run only
Spec == Init /\ [][Next]_vars

\* printed once, in the last state
Report == (l = N + 1) => PrintT(<<"VERDICT", N, ToJson(viol)>>)
====
