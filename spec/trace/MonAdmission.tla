---- MODULE MonAdmission ----
\* Judge of the Admission observations (C16, C17): every line is one TLC-enumerated case sent through the real
\* webhooks (raw AdmissionRequests, patch applied with the API server's JSON-patch library).
EXTENDS Admission, Json, IOUtils

Trace == ndJsonDeserialize(IOEnv.VERIF_TRACE)
N == Len(Trace)
VARIABLES l, viol
vars == <<l, viol>>
Fail(name, ok) == IF ok THEN {} ELSE {name}

AFails(e) ==
    LET c == e.c  m == MutateA(c)
        w == IF ~c.spec THEN "no-spec" ELSE "spec"
    IN   Fail("C16_PatchFaithful", e.err = "" /\ e.patchok)
    \cup Fail("C16_Defaults", e.err = "" => (e.a.type = m.type /\ e.a.ttl = m.ttl /\ e.a.fin = m.fin
                                              /\ e.a.att = m.att /\ e.a.pt = m.pt /\ e.a.par = m.par /\ e.a.pod = m.pod))
    \cup Fail("C16_Idempotent", e.err = "" => (e.second /\ e.a2 = e.a))
BFails(e) ==
    LET c == e.c  m == MutateB(c) IN
         Fail("C16_ConfigName", e.b.ok = m.ok /\ (m.ok => /\ e.b.owner = m.owner /\ e.b.uidlabel = m.uidlabel /\ e.b.template = m.template
                                                            /\ e.b.policy = m.policy /\ e.b.cfgnamecleared /\ e.b.fin = m.fin))
    \cup Fail("C16_SharedCacheIntact", e.mutated = <<>>)
    \cup Fail("C16_Precedence", m.ok /\ e.b.ok => (e.b.opta = m.opta /\ e.b.jcname = m.jcname /\ e.b.label = m.label))
DFails(e) == Fail("C16_Defaults", e.err = "" /\ e.a.pt = PtD(e.c.pt1) /\ e.a2.pt = PtD(e.c.pt2))
             \cup Fail("C16_SharedCacheIntact", e.mutated = <<>>)
CFails(e) == Fail("C16_LastUpdated", e.err = "" /\ e.stamp = StampedC(e.c))
UFails(e) == Fail("C17_Immutable", e.err = "" /\ (e.allowed = ~RefuseU(e.c)))
PFails(e) == Fail("C17_Processable", e.flags.accepted => (\A k \in DOMAIN e.flags : e.flags[k])
                                                         /\ {"loadable", "bumpable", "instantiable", "jobaccepted", "podbuildable"} \subseteq DOMAIN e.flags)

Init == l = 1 /\ viol = {}
Next == /\ l <= N /\ l' = l + 1
        /\ LET e == Trace[l]
               fs == CASE e.ev = "A" -> AFails(e) [] e.ev = "B" -> BFails(e) [] e.ev = "C" -> CFails(e) [] e.ev = "D" -> DFails(e) [] e.ev = "U" -> UFails(e) [] e.ev = "P" -> PFails(e) [] OTHER -> {}
               w == IF e.ev = "A" /\ ~e.c.spec THEN "no-spec" ELSE ""
           IN viol' = viol \cup {[f |-> f, line |-> l, run |-> e.run, ev |-> e.ev, faulted |-> FALSE, witness |-> w] : f \in fs}
Spec == Init /\ [][Next]_vars
Report == (l = N + 1) => PrintT(<<"VERDICT", N, ToJson(viol)>>)
====
