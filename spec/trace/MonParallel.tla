---- MODULE MonParallel ----
\* Judge of the Parallel observations (C14): every line is one TLC-enumerated
\* parallelism spec evaluated on the real GenerateIndexes / HashIndex /
\* GenerateTaskName / NewPod / GetParallelStatus / ValidateParallelismSpec; the
\* formulas compare it with the functional specification (Parallel.tla).
EXTENDS Parallel, Json, IOUtils

Trace == ndJsonDeserialize(IOEnv.VERIF_TRACE)
N == Len(Trace)
VARIABLES l, viol
vars == <<l, viol>>

Fail(name, ok) == IF ok THEN {} ELSE {name}
\* the case as the specification's record (arrays are sequences already)
CaseOf(e) == CASE e.c.kind = "count" -> [kind |-> "count", n |-> e.c.n]
               [] e.c.kind = "keys" -> [kind |-> "keys", keys |-> e.c.keys]
               [] e.c.kind = "matrix" -> [kind |-> "matrix", mk |-> e.c.mk, mv |-> e.c.mv]
               [] e.c.kind = "mixed" -> [kind |-> "mixed", types |-> e.c.types]
VarsStr(x) == [num |-> IF "num" \in DOMAIN x THEN ToString(x.num) ELSE "",
               key |-> IF "key" \in DOMAIN x THEN x.key ELSE "",
               m |-> IF "m" \in DOMAIN x THEN x.m ELSE <<>>]
Witness(c) == IF InputDistinct(c) THEN "hash-collision" ELSE "duplicate-index"
Class(c) == IF c.kind = "mixed" THEN "mixed" ELSE IF c.kind = "count" /\ c.n >= 70 THEN "count>=70" ELSE "small"

LineFails(e) ==
    IF e.c.kind = "mixed" THEN Fail("C14_Admission", ~e.accepted) ELSE     \* more than one parallelism type: admission must refuse
    LET c == CaseOf(e)  X == Expand(c) IN
         Fail("C14_Expansion", e.idx = X)
    \cup Fail("C14_Deterministic", e.stable)
    \cup Fail("C14_Admission", MustReject(c) => ~e.accepted)
    \cup Fail("C14_DistinctIdentity", e.accepted => (NoDupSeq(e.hash) /\ NoDupSeq(e.name) /\ NoDupSeq(e.namel) /\ e.slots = Len(X)))
    \cup Fail("C14_OwnVariables", Len(e.vars) = Len(X) /\ Len(e.ivars) = Len(X) /\ \A i \in 1..Len(X) : e.vars[i] = VarsStr(X[i]) /\ e.ivars[i] = VarsStr(X[i]))

Init == l = 1 /\ viol = {}
Next == /\ l <= N /\ l' = l + 1
        /\ LET e == Trace[l] IN
           viol' = viol \cup {[f |-> f, line |-> l, run |-> e.run, ev |-> e.ev, faulted |-> FALSE, witness |-> Witness(CaseOf(e)), cls |-> Class(CaseOf(e))] : f \in LineFails(e)}
Spec == Init /\ [][Next]_vars
Report == (l = N + 1) => PrintT(<<"VERDICT", N, ToJson(viol)>>)
====
