SPECIFICATION Spec
INVARIANT Report
CHECK_DEADLOCK FALSE
