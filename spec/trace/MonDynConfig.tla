---- MODULE MonDynConfig ----
\* Log-driven monitor for the DynConfig module (C19): the trace is the sequence
\* of source updates delivered to the real ConfigMapLoader / SecretLoader and of
\* reads through the real ContextConfigs. Ghosts: the content each loader must
\* hold (the last update that parsed as a whole), the last successfully decoded
\* value per kind, the defaults and literal table announced by the Reset line.
EXTENDS Integers, Sequences, FiniteSets, TLC, Json, IOUtils

Trace == ndJsonDeserialize(IOEnv.VERIF_TRACE)
N == Len(Trace)
Kinds == {"jobs", "jobConfigs", "cron"}

VARIABLES l, cm, sec, lkg, def, lits, viol
vars == <<l, cm, sec, lkg, def, lits, viol>>

Fail(name, ok) == IF ok THEN {} ELSE {name}
NoFields == [x \in {} |-> ""]
Empty == [k \in Kinds |-> NoFields]
\* class of field f of kind k in a source ("u" when the source does not set it)
ClassOf(src, k, f) == IF f \in DOMAIN src[k] THEN src[k][f] ELSE "u"
Win(k, f) == IF ClassOf(sec, k, f) # "u" THEN ClassOf(sec, k, f) ELSE ClassOf(cm, k, f)
FieldsOf(k) == DOMAIN def[k]
Decodable(k) == \A f \in FieldsOf(k) : Win(k, f) # "x"
Expected(k) == [f \in FieldsOf(k) |-> IF Win(k, f) = "u" THEN def[k][f] ELSE lits[k][f][Win(k, f)]]
Parses(c) == \A k \in DOMAIN c : c[k].state # "garbage"
Accepted(c) == [k \in Kinds |-> IF k \in DOMAIN c /\ c[k].state = "fields" THEN c[k].fields ELSE NoFields]

ReadFails(e) ==
    LET k == e.kind IN
    IF Decodable(k)
    THEN Fail("C19_Layering", ~e.err /\ \A f \in FieldsOf(k) : f \in DOMAIN e.res /\ e.res[f] = Expected(k)[f])
    ELSE Fail("C19_LKG", IF lkg[k].has THEN (~e.err /\ \A f \in FieldsOf(k) : f \in DOMAIN e.res /\ e.res[f] = lkg[k].v[f]) ELSE e.err)

Init == /\ l = 1 /\ cm = Empty /\ sec = Empty /\ lkg = [k \in Kinds |-> [has |-> FALSE, v |-> NoFields]]
        /\ def = Empty /\ lits = Empty /\ viol = {}
Next ==
    /\ l <= N /\ l' = l + 1
    /\ LET e == Trace[l] IN
       CASE e.ev = "Reset" ->
              /\ cm' = Empty /\ sec' = Empty /\ def' = e.def /\ lits' = e.lits
              /\ lkg' = [k \in Kinds |-> [has |-> TRUE, v |-> e.def[k]]]      \* the driver reads every kind once to learn the defaults
              /\ UNCHANGED viol
         [] e.ev = "Update" ->
              /\ cm' = IF e.src = "cm" /\ Parses(e.content) THEN Accepted(e.content) ELSE cm
              /\ sec' = IF e.src = "sec" /\ Parses(e.content) THEN Accepted(e.content) ELSE sec
              /\ UNCHANGED <<lkg, def, lits, viol>>
         [] e.ev = "Read" ->
              /\ lkg' = IF Decodable(e.kind) /\ ~e.err THEN [lkg EXCEPT ![e.kind] = [has |-> TRUE, v |-> e.res]] ELSE lkg
              /\ viol' = viol \cup {r \in {[f |-> f, line |-> l, run |-> e.run, ev |-> e.ev, faulted |-> FALSE] : f \in ReadFails(e)} : ~\E v \in viol : v.f = r.f /\ v.run = r.run}   \* first failure of a formula in a run only
              /\ UNCHANGED <<cm, sec, def, lits>>
         [] OTHER -> UNCHANGED <<cm, sec, lkg, def, lits, viol>>
Spec == Init /\ [][Next]_vars
Report == (l = N + 1) => PrintT(<<"VERDICT", N, ToJson(viol)>>)
====
