---- MODULE MonStatus ----
\* Judge of the Status observations (C10, C11): every line is one TLC-enumerated case evaluated on the real
\* status derivation chain. The laws (C10_*, C11_*) are evaluated on what the real code returned; S_* compare
\* the real output with the specification's function on the same case (conformance of Status.tla, reported as
\* drift, not as a property verdict).
EXTENDS Status, Json, IOUtils

Trace == ndJsonDeserialize(IOEnv.VERIF_TRACE)
N == Len(Trace)
VARIABLES l, viol
vars == <<l, viol>>
Fail(name, ok) == IF ok THEN {} ELSE {name}

PodFails(e) ==
    LET pd == e.c.pd  ex == e.c.ref  o == e.o IN
    IF e.err # "" \/ e.n # 1 THEN {"C11_Total"} ELSE
         Fail("C10_TaskTruth", /\ (o.result = "Succeeded") => (pd.phase = "Succeeded" /\ ~PodOOM(pd))
                               /\ (o.result = "Failed") => (pd.phase = "Failed" \/ PodOOM(pd))
                               /\ PodFinished(pd) => o.result \in {"Succeeded", "Failed"}
                               /\ (o.state = "Terminated") <=> PodFinished(pd)
                               \* a task that is still alive is not recorded as finished (unless it had been recorded so before)
                               /\ (~PodFinished(pd) /\ ~(ex.ex /\ ex.fin # 0)) => o.fin = 0)
    \cup Fail("C11_KeepTimes", /\ (ex.ex /\ ex.run # 0) => o.run # 0
                               /\ (ex.ex /\ ex.fin # 0) => o.fin # 0
                               /\ PodFinished(pd) => (o.fin # 0 /\ o.ds.set /\ o.ds.state = "Terminated" /\ o.ds.result = o.result)
                               /\ (ex.ex /\ ex.ds.set /\ ~PodFinished(pd)) => o.ds = ex.ds)
    \cup Fail("C11_Deterministic", e.same)
    \cup Fail("S_TaskRef", o = Merge(ex, pd))
LostFails(e) ==
    LET ex == e.c.ref  o == e.o IN
    IF e.err # "" \/ e.n # 1 THEN {"C11_Total"} ELSE
         Fail("C11_LostKeeps", /\ o.fin # 0 /\ (ex.fin # 0 => o.fin = ex.fin) /\ o.run = ex.run
                               /\ (ex.result = "Succeeded" /\ ~ex.ds.set) => o.result = "Succeeded"
                               /\ ex.ds.set => (o.state = ex.ds.state /\ o.result = ex.ds.result))
    \cup Fail("S_Lost", o = Lost(ex))
JobFails(e) ==
    LET jb == e.c.jb  o == e.j  I == 1..NIdx(jb) IN
    IF e.err # "" THEN {"C11_Total"} ELSE
         Fail("C11_Coherent", /\ o.conds = 1
                              /\ o.kind \in {"Queueing", "Waiting", "Running", "Finished"} /\ o.state = StateOfKind(o.kind)
                              /\ TerminalPhase(o.phase) <=> o.kind = "Finished"
                              /\ (o.kind = "Finished") => o.fints # 0
                              /\ (o.kind = "Queueing") <=> (~Started(jb) /\ ~Deleting(jb))
                              /\ (o.phase = "Queued") <=> o.kind = "Queueing"
                              /\ (jb.ctx = "killpast") => o.kind \in {"Finished", "Waiting"})
    \cup Fail("C10_Result", /\ (o.result = "Success") => (IF Strat(jb) = "AllSuccessful" THEN \A i \in I : SuccIdx(jb, i) ELSE \E i \in I : SuccIdx(jb, i))
                            /\ (o.result = "Failed") => (IF Strat(jb) = "AllSuccessful" THEN \E i \in I : ExhIdx(jb, i) ELSE \A i \in I : ExhIdx(jb, i))
                            /\ (o.result \in {"Success", "Failed"}) => \A r \in RefSet(jb) : r.fin # 0
                            /\ (jb.ctx = "started" /\ Summary(jb).complete /\ \A r \in RefSet(jb) : r.fin # 0) =>
                                    (o.kind = "Finished" /\ o.result = (IF Summary(jb).successful THEN "Success" ELSE "Failed"))
                            /\ (o.phase = "Succeeded") <=> (o.result = "Success")
                            /\ (o.phase = "Failed") <=> (o.result = "Failed"))
    \* the finish time of a Job that finished through its tasks is the latest finish time among them (the TTL counts from it)
    \cup Fail("C13_FinishTime", (o.kind = "Finished" /\ o.result \in {"Success", "Failed"}) => o.fints = LatestFin(jb))
    \cup Fail("C11_Deterministic", e.same)
    \cup Fail("S_Condition", LET c == Cond(jb) IN
                              /\ o.kind = c.kind /\ o.result = c.result /\ o.reason = c.reason /\ o.fints = c.fints /\ o.terminating = c.terminating
                              /\ o.phase = Phase(jb))

Init == l = 1 /\ viol = {}
Next == /\ l <= N /\ l' = l + 1
        /\ LET e == Trace[l]
               fs == IF e.ev = "Pod" THEN PodFails(e) ELSE IF e.ev = "Lost" THEN LostFails(e) ELSE IF e.ev = "Job" THEN JobFails(e) ELSE {} IN
           viol' = viol \cup {[f |-> f, line |-> l, run |-> e.run, ev |-> e.ev, faulted |-> FALSE] : f \in fs}
Spec == Init /\ [][Next]_vars
Report == (l = N + 1) => PrintT(<<"VERDICT", N, ToJson(viol)>>)
====
