---- MODULE MonOptions ----
\* Judge of the Options observations (C18): every line is one TLC-enumerated case evaluated on the real
\* option evaluation, or on the real admission + task-creation pipeline for substitution cases.
EXTENDS Options, Json, IOUtils

Trace == ndJsonDeserialize(IOEnv.VERIF_TRACE)
N == Len(Trace)
VARIABLES l, viol
vars == <<l, viol>>
Fail(name, ok) == IF ok THEN {} ELSE {name}

\* JSON drops false booleans / empty strings written with omitempty: rebuild the specification's records
Fld(r, f, d) == IF f \in DOMAIN r THEN r[f] ELSE d
OptOf(o) == CASE o.type = "string" -> [type |-> "string", required |-> o.required, def |-> Fld(o, "def", ""), trim |-> Fld(o, "trim", FALSE)]
              [] o.type = "select" -> [type |-> "select", required |-> o.required, def |-> Fld(o, "def", ""), custom |-> Fld(o, "custom", FALSE), values |-> o.values]
              [] o.type = "multi" -> [type |-> "multi", required |-> o.required, def |-> Fld(o, "def", <<>>), custom |-> Fld(o, "custom", FALSE), values |-> o.values, delim |-> Fld(o, "delim", "")]
              [] o.type = "bool" -> [type |-> "bool", required |-> o.required, def |-> Fld(o, "def", FALSE), format |-> o.format, tv |-> Fld(o, "tv", ""), fv |-> Fld(o, "fv", "")]
              [] o.type = "date" -> [type |-> "date", required |-> o.required, format |-> o.format]
ValOf(v) == CASE v.k = "str" -> [k |-> "str", s |-> Fld(v, "s", "")]
              [] v.k = "bool" -> [k |-> "bool", b |-> Fld(v, "b", FALSE)]
              [] v.k = "list" -> [k |-> "list", l |-> Fld(v, "l", <<>>)]
              [] OTHER -> [k |-> v.k]

EvalFails(e) ==
    LET o == OptOf(e.c.o)  v == ValOf(e.c.val)  x == Eval(o, v) IN
    IF ~e.accepted THEN {} ELSE
         Fail("C18_Eval", e.ok = x.ok /\ (x.ok => e.v = x.v))
    \cup Fail("C18_DefaultAgrees", e.def = Default(o))
    \cup Fail("C18_Deterministic", e.stable)

Has(e, s) == \E i \in 1..Len(e.c.srcs) : e.c.srcs[i] = s
V(x) == [var |-> x, res |-> TRUE]
T(x) == [txt |-> x]
SubstFails(e) ==
    LET explicit == (IF Has(e, "explicit") THEN ("option.a" :> "EXP") ELSE <<>>) @@ (IF e.c.ctx = "explicit" THEN ("job.name" :> "OVERRIDE") ELSE <<>>)
        value == IF Has(e, "value") THEN ("option.a" :> "VAL") ELSE <<>>
        default == (IF Has(e, "default") THEN ("option.a" :> "DEF") ELSE <<>>) @@ ("option.b" :> "B")
        context == ("job.name" :> "<job>") @@ ("task.retry_index" :> "0") @@ ("jobconfig.name" :> "<jc>")
        srcs == <<explicit, value, default, context>>
        S(t) == Subst(srcs, t, {})
        expected == << S(<<V("option.a")>>), S(<<T("pre-"), V("option.a"), T("-post")>>), S(<<V("option.zzz")>>), S(<<[var |-> "unknown.var", res |-> FALSE]>>),
                       "$HOME ${} {x}", S(<<V("job.name")>>), S(<<V("task.retry_index")>>), S(<<V("jobconfig.name"), T("|"), V("option.b")>>),
                       S(<<T("img:"), V("option.a")>>), S(<<V("option.a")>>),
                       "1", S(<<V("option.a")>>) >>       \* the retry rendered from the same Job object: its own retry index, the same option value
        valid == Has(e, "value") => Has(e, "default")      \* a value can only be submitted for a declared option
    IN IF ~valid THEN {} ELSE
         Fail("C18_Deterministic", e.err = "" /\ e.stable)
    \cup Fail("C18_Subst", (e.c.vk = "plain" /\ e.err = "") => e.args = expected)

Init == l = 1 /\ viol = {}
Next == /\ l <= N /\ l' = l + 1
        /\ LET e == Trace[l]
               fs == IF e.ev = "Eval" THEN EvalFails(e) ELSE IF e.ev = "Subst" THEN SubstFails(e) ELSE {} IN
           viol' = viol \cup {[f |-> f, line |-> l, run |-> e.run, ev |-> e.ev, faulted |-> FALSE] : f \in fs}
Spec == Init /\ [][Next]_vars
Report == (l = N + 1) => PrintT(<<"VERDICT", N, ToJson(viol)>>)
====
