\* two indexes, AnySuccessful, fresh caches, user delete, crash
CONSTANTS N = 2 MaxAtt = 2 Delay = 1 Strategy = "AnySuccessful" PT = 2 FD = 2 TTL = 2 Forbid = FALSE Foreign = FALSE MaxTime = 8 MaxEvq = 3 MaxFaults = 2 MaxCrash = 1 Fresh = TRUE KillDelays = {} KillEdits = {} UserDeletes = TRUE ExtDeletes = FALSE NodeDowns = FALSE
 Rejects = FALSE
 Holds = TRUE Invalids = FALSE WatchBreaks = TRUE D = 48
SPECIFICATION SSpec
INVARIANT EmitDone
CHECK_DEADLOCK FALSE
