---- MODULE JobLife_Sim ----
\* Schedule generation (binding direction A) for the JobLife module: the design specification plus the history
\* of its step labels. `tlc -simulate` explores random behaviours of the specification; every behaviour that
\* reaches length D is printed as one JSON schedule, which harness/drivers/joblife.go replays step by step on
\* the real job controller (a step the real system cannot take is recorded as a divergence and the run
\* continues with the drain phase).
EXTENDS JobLife, Json
CONSTANT D
VARIABLE sched
svars == <<vars, sched>>
Phase(x) == IF x = "R" THEN "Running" ELSE IF x = "S" THEN "Succeeded" ELSE "Failed"
Op(o) == IF o = "create" THEN "create/pods" ELSE IF o = "deljob" THEN "delete/jobs" ELSE IF o = "updjob" THEN "update/jobs" ELSE "update/jobs/status"
Proj(l) ==
    IF l.a = "Kubelet" THEN [a |-> "Kubelet", i |-> l.i, r |-> l.r, x |-> Phase(l.x)]
    ELSE IF l.a \in {"KubeletGone", "NodeDown", "ExternalDelete"} THEN [a |-> l.a, i |-> l.i, r |-> l.r]
    ELSE IF l.a \in {"UserKill", "UserRekill"} THEN [a |-> l.a, d |-> l.d]
    ELSE IF l.a = "Step" THEN [a |-> "Step", x |-> Op(l.op), f |-> l.f]
    ELSE [a |-> l.a]
SInit == Init /\ sched = <<>>
\* bias (a filter inside the next-state relation): the user and the crash only interfere once the Job has tasks,
\* so that uniformly random simulation spends its steps on task life cycles rather than on deleting an idle Job
Bias == last'.a \in {"UserDelete", "UserKill", "UserRekill", "CrashRestart", "NodeDown", "ExternalDelete"} => (ever # {} /\ Len(sched) >= 8)
\* digest of the state after the step: the replay driver compares it with the projection of the real state
Exp == [ex |-> job'.ex, fin |-> job'.kind = "Finished", res |-> job'.result, pods |-> Cardinality(Mine(pods')),
        refs |-> Cardinality({s \in Slots : job'.refs[s].ex}), dl |-> Cardinality({s \in Mine(pods') : pods'[s].dl # 0})]
SNext == Next /\ Bias /\ sched' = Append(sched, Proj(last') @@ [e |-> Exp])
SSpec == SInit /\ [][SNext]_svars
\* a schedule is printed when the behaviour reaches one of three lengths (prefixes are schedules too)
EmitDone == Len(sched) \notin {D \div 2, (3 * D) \div 4, D} \/ PrintT(<<"SCHED", ToJson(sched)>>)
====
