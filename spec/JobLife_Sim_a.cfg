\* two indexes x two attempts, AllSuccessful, lagging caches, API faults, kill two ticks ahead
CONSTANTS N = 2 MaxAtt = 2 Delay = 1 Strategy = "AllSuccessful" PT = 2 FD = 2 TTL = 2 Forbid = FALSE Foreign = FALSE MaxTime = 8 MaxEvq = 3 MaxFaults = 2 MaxCrash = 0 Fresh = FALSE KillDelays = {2, 3} KillEdits = {99, 1, 3} UserDeletes = FALSE ExtDeletes = FALSE NodeDowns = FALSE
 Rejects = FALSE
 Holds = FALSE Invalids = FALSE WatchBreaks = FALSE D = 48
SPECIFICATION SSpec
INVARIANT EmitDone
CHECK_DEADLOCK FALSE
