CONSTANTS Jobs = {1,2,3} JCs = {1} MaxC <- MCMaxC1 MaxTime = 3 MaxLag = 3 MaxFaults = 2 MaxCrashes = 1 MaxTouch = 2
  StoreLag = FALSE AppliedFaults = FALSE StartAfters = {0,2,3} Owners = {0,1,1,1} Pols = {"Allow","Forbid","Enqueue"} Scheds = {FALSE, TRUE} WithJCSync = FALSE
  Env = {"Touch","Delete","Remove","Postpone"} D = 40
SPECIFICATION SSpec
INVARIANT EmitDone
CHECK_DEADLOCK FALSE
