---- MODULE Cron ----
\* Design specification of furiko's cron scheduling (properties C01-C04, C20 goal).
\*
\* Models (pkg/execution/controllers/croncontroller, pkg/execution/util/cronschedule):
\*   - cronschedule.Schedule as a map JobConfig -> next due tick (heap order is checked on traces only; ties are free),
\*     New / getInitialTimeForScheduling (Boot, Restart), Pop, Bump, Delete, getNext with notBefore / notAfter;
\*   - CronWorker.Work as ONE action: flush of added JobConfigs (skip if already in the heap), flush of updated
\*     JobConfigs (delete, re-add the lister's version from the pass's clock, nothing if it is gone), then the pop loop
\*     with the per-pass counter and the missed-schedule cap. Deviation named here: the real worker holds its mutex for
\*     the whole pass but informer deliveries and reconciler syncs may run next to it; the harness runs a pass as one
\*     step, so the specification does too;
\*   - InformerWorker handlers (add -> added channel; update -> flush iff the schedule spec differs; delete -> flush),
\*     the JobConfig cache with delivery lag, the mutating webhook stamping spec.schedule.lastUpdated;
\*   - the cron Reconciler: work-queue of (JobConfig, tick) keys with client-go de-duplication, SyncBegin (JobConfig
\*     cache lookup, Job cache lookup by the deterministic name) and Step = the create call (ok / rejected fault /
\*     AlreadyExists), rate-limited retry for ever, lagging Job cache;
\*   - the jobconfig controller's lastScheduled write (StatusSync, monotone maximum over existing Jobs), Job clean-up
\*     (JobGone), crash + restart (queue, channels, heap lost; caches relisted).
\* Time is in ticks (one tick = one minute on the real code); due-set id k > 0 means "every k-th tick" (cron */k),
\* id 0 means no schedule.
EXTENDS Integers, Sequences, FiniteSets, TLC

CONSTANTS JCs, Horizon, Ids, Windows, MaxMissed, MaxDown, MaxOps, MaxLag, MaxFaults, MaxRestarts, MaxTick, Pols, PreBoot, WithRecon, Workers,
          Relists     \* BOOLEAN: the JobConfig watch may break (undelivered events lost, the informer lists again)

VARIABLES now, booted, api, cache, evq, addch, updch, heap, wq, retry, sync, jobs, jcache, jevq,
          ops, faults, restarts, uidc,
          lo, req, lastfired, reqs, ever, act      \* ghosts for the properties (not read by any action guard)
vars == <<now, booted, api, cache, evq, addch, updch, heap, wq, retry, sync, jobs, jcache, jevq, ops, faults, restarts, uidc, lo, req, lastfired, reqs, ever, act>>

None == -1
Absent == [ex |-> FALSE, uid |-> 0, id |-> 0, dis |-> FALSE, nbf |-> None, naf |-> None, lu |-> None, ls |-> None, pol |-> "Allow"]
Min(S) == CHOOSE x \in S : \A y \in S : x <= y
Max(S) == CHOOSE x \in S : \A y \in S : y <= x
Max2(a, b) == IF a >= b THEN a ELSE b
Far == Horizon + 4

\* ---- schedules
Enabled(o) == o.ex /\ o.id # 0 /\ ~o.dis
InWindow(o, t) == (o.nbf = None \/ t >= o.nbf) /\ (o.naf = None \/ t <= o.naf)
Due(o) == IF Enabled(o) THEN {t \in 0..Far : t % o.id = 0 /\ InWindow(o, t)} ELSE {}
\* cronschedule.getNext: first match strictly after t (not before notBefore), nothing after notAfter
NextAfter(o, t) == LET t1 == IF o.nbf # None /\ t < o.nbf THEN o.nbf - 1 ELSE t
                       S == {d \in 0..Far : d % o.id = 0 /\ d > t1}
                   IN IF S = {} THEN None ELSE IF o.naf # None /\ Min(S) > o.naf THEN None ELSE Min(S)
BumpFrom(o, t) == IF Enabled(o) THEN NextAfter(o, t) ELSE None
\* cronschedule.getInitialTimeForScheduling
InitRef(o, n) == LET a == IF o.ls # None THEN Max2(o.ls, n - MaxDown) ELSE n
                     b == IF o.lu # None /\ o.lu > a THEN o.lu ELSE a
                 IN IF o.nbf # None /\ b < o.nbf THEN o.nbf - 1 ELSE b
SchedOf(o) == <<o.id, o.dis, o.nbf, o.naf>>     \* what IsScheduleEqual compares besides lastUpdated
HasSched(o) == o.ex /\ o.id # 0

Idle == [busy |-> FALSE, jc |-> 0, t |-> 0, stage |-> "none", uid |-> 0]

Init == /\ now = 0 /\ booted = FALSE
        /\ api = [j \in JCs |-> Absent] /\ cache = [j \in JCs |-> Absent]
        /\ evq = <<>> /\ addch = <<>> /\ updch = <<>> /\ heap = [j \in JCs |-> None]
        /\ wq = {} /\ retry = {} /\ sync = [w \in Workers |-> Idle] /\ jobs = {} /\ jcache = {} /\ jevq = <<>>
        /\ ops = 0 /\ faults = 0 /\ restarts = 0 /\ uidc = 0
        /\ lo = [j \in JCs |-> 0] /\ req = [j \in JCs |-> 0] /\ lastfired = <<>> /\ reqs = {} /\ ever = {} /\ act = "Init"

Emit(j, new) == /\ api' = [api EXCEPT ![j] = new]
                /\ evq' = Append(evq, [jc |-> j, old |-> api[j], new |-> new])

\* ---- environment
\* create or update through the webhooks: lastUpdated is stamped on creation and when the schedule spec changes
UserSet(j, id, dis, w, pol) ==
    /\ ops < MaxOps /\ Len(evq) < MaxLag /\ (booted \/ PreBoot)
    /\ LET o == api[j]
           base == IF o.ex THEN o ELSE [Absent EXCEPT !.ex = TRUE, !.uid = uidc + 1]
           n0 == [base EXCEPT !.id = id, !.dis = (id # 0 /\ dis), !.nbf = IF id = 0 THEN None ELSE w[1], !.naf = IF id = 0 THEN None ELSE w[2], !.pol = pol]
           stamped == id # 0 /\ (~o.ex \/ ~HasSched(o) \/ SchedOf(o) # SchedOf(n0))
           n1 == [n0 EXCEPT !.lu = IF id = 0 THEN None ELSE IF stamped THEN now ELSE o.lu]
       IN /\ n1 # o
          /\ Emit(j, n1)
          /\ uidc' = IF o.ex THEN uidc ELSE uidc + 1
    /\ ops' = ops + 1
    /\ UNCHANGED <<now, booted, cache, addch, updch, heap, wq, retry, sync, jobs, jcache, jevq, faults, restarts, lo, req, lastfired, reqs, ever>>
UserDelete(j) ==
    /\ ops < MaxOps /\ Len(evq) < MaxLag /\ api[j].ex /\ booted
    /\ Emit(j, Absent) /\ ops' = ops + 1
    /\ UNCHANGED <<now, booted, cache, addch, updch, heap, wq, retry, sync, jobs, jcache, jevq, faults, restarts, uidc, lo, req, lastfired, reqs, ever>>
Tick(d) == /\ now + d <= Horizon /\ now' = now + d
           /\ UNCHANGED <<booted, api, cache, evq, addch, updch, heap, wq, retry, sync, jobs, jcache, jevq, ops, faults, restarts, uidc, lo, req, lastfired, reqs, ever>>
\* jobconfig controller: lastScheduled := max over the schedule times of the JobConfig's existing Jobs (never backwards)
StatusSync(j) ==
    /\ booted /\ api[j].ex /\ Len(evq) < MaxLag
    /\ LET S == {x.t : x \in {y \in jobs : y.jc = j /\ y.uid = api[j].uid}} IN
       /\ S # {} /\ Max(S) > api[j].ls
       /\ Emit(j, [api[j] EXCEPT !.ls = Max(S)])
    /\ UNCHANGED <<now, booted, cache, addch, updch, heap, wq, retry, sync, jobs, jcache, jevq, ops, faults, restarts, uidc, lo, req, lastfired, reqs, ever>>
JobGone(x) == /\ booted /\ x \in jobs /\ jobs' = jobs \ {x} /\ jevq' = Append(jevq, [k |-> "del", x |-> x])
              /\ UNCHANGED <<now, booted, api, cache, evq, addch, updch, heap, wq, retry, sync, jcache, ops, faults, restarts, uidc, lo, req, lastfired, reqs, ever>>

\* ---- informers
DeliverJC ==
    /\ evq # <<>>
    /\ LET e == Head(evq) IN
       /\ cache' = [cache EXCEPT ![e.jc] = e.new] /\ evq' = Tail(evq)
       /\ addch' = IF booted /\ ~e.old.ex /\ e.new.ex THEN Append(addch, [jcid |-> e.jc, obj |-> e.new]) ELSE addch
       /\ updch' = IF ~booted THEN updch
                   ELSE IF e.old.ex /\ ~e.new.ex THEN Append(updch, e.jc)                                  \* delete: flush
                   ELSE IF e.old.ex /\ e.new.ex /\ (SchedOf(e.old) # SchedOf(e.new) \/ e.old.lu # e.new.lu \/ HasSched(e.old) # HasSched(e.new))
                        THEN Append(updch, e.jc)                                                             \* schedule spec differs: flush
                   ELSE updch
    /\ UNCHANGED <<now, booted, api, heap, wq, retry, sync, jobs, jcache, jevq, ops, faults, restarts, uidc, lo, req, lastfired, reqs, ever>>
\* the JobConfig watch breaks and the informer lists again: the cache jumps to the present; the handlers see an add for every
\* unknown JobConfig, an update for every known one (flushed under the same rule as a delivered update) and a tombstone for
\* every JobConfig that is gone (flushed)
RECURSIVE AddsOf(_)
AddsOf(S) == IF S = {} THEN <<>> ELSE LET j == Min(S) IN <<[jcid |-> j, obj |-> api[j]]>> \o AddsOf(S \ {j})
SchedChanged(o, n) == SchedOf(o) # SchedOf(n) \/ o.lu # n.lu \/ HasSched(o) # HasSched(n)
RECURSIVE SeqOf(_)
SeqOf(S) == IF S = {} THEN <<>> ELSE LET j == Min(S) IN <<j>> \o SeqOf(S \ {j})
RelistJC ==
    /\ Relists /\ booted /\ evq # <<>>
    /\ cache' = api /\ evq' = <<>>
    /\ addch' = addch \o AddsOf({j \in JCs : ~cache[j].ex /\ api[j].ex})
    /\ updch' = updch \o SeqOf({j \in JCs : cache[j].ex /\ api[j].ex /\ SchedChanged(cache[j], api[j])})
                      \o SeqOf({j \in JCs : cache[j].ex /\ ~api[j].ex})
    /\ UNCHANGED <<now, booted, api, heap, wq, retry, sync, jobs, jcache, jevq, ops, faults, restarts, uidc, lo, req, lastfired, reqs, ever>>
DeliverJob ==
    /\ jevq # <<>>
    /\ jcache' = IF Head(jevq).k = "add" THEN jcache \cup {Head(jevq).x} ELSE jcache \ {Head(jevq).x}
    /\ jevq' = Tail(jevq)
    /\ UNCHANGED <<now, booted, api, cache, evq, addch, updch, heap, wq, retry, sync, jobs, ops, faults, restarts, uidc, lo, req, lastfired, reqs, ever>>

\* ---- CronWorker.Work
RECURSIVE FlushAdds(_, _)
FlushAdds(h, c) == IF c = <<>> THEN h ELSE
    LET j == Head(c).jcid IN
    IF h[j] # None THEN FlushAdds(h, Tail(c))                       \* already scheduled (loaded on start): keep its catch-up
    ELSE FlushAdds([h EXCEPT ![j] = BumpFrom(Head(c).obj, now)], Tail(c))
RECURSIVE FlushUpds(_, _)
FlushUpds(h, c) == IF c = <<>> THEN h ELSE
    LET j == Head(c) IN
    FlushUpds([h EXCEPT ![j] = IF cache[j].ex THEN BumpFrom(cache[j], now) ELSE None], Tail(c))
\* the pop loop: returns <<heap, fired sequence>>; counters per JobConfig
RECURSIVE PopLoop(_, _, _)
PopLoop(h, cnt, out) ==
    LET due == {j \in JCs : h[j] # None /\ h[j] <= now} IN
    IF due = {} THEN <<h, out>> ELSE
    LET m == Min({h[j] : j \in due})
        j == Min({k \in due : h[k] = m})
        o == cache[j]
    IN IF ~o.ex THEN PopLoop([h EXCEPT ![j] = None], cnt, out)                                   \* lister miss: dropped
       ELSE IF cnt[j] >= MaxMissed THEN PopLoop([h EXCEPT ![j] = BumpFrom(o, now)], cnt, out)   \* cap: resume from the present
       ELSE PopLoop([h EXCEPT ![j] = BumpFrom(o, m)], [cnt EXCEPT ![j] = @ + 1], Append(out, [jc |-> j, t |-> m, uid |-> o.uid]))
Work ==
    /\ booted
    /\ LET h1 == FlushUpds(FlushAdds(heap, addch), updch)
           r == PopLoop(h1, [j \in JCs |-> 0], <<>>)
       IN /\ heap' = r[1] /\ lastfired' = r[2]
          /\ wq' = IF WithRecon THEN wq \cup {<<r[2][i].jc, r[2][i].t>> : i \in 1..Len(r[2])} ELSE wq
          /\ reqs' = IF WithRecon THEN reqs \cup {r[2][i] : i \in 1..Len(r[2])} ELSE reqs
          /\ lo' = [j \in JCs |-> now] /\ req' = [j \in JCs |-> now]
    /\ addch' = <<>> /\ updch' = <<>>
    /\ UNCHANGED <<now, booted, api, cache, evq, retry, sync, jobs, jcache, jevq, ops, faults, restarts, uidc, ever>>

\* ---- controller start
Boot0(n) == [j \in JCs |-> IF Enabled(api[j]) THEN NextAfter(api[j], InitRef(api[j], n)) ELSE None]
\* handlers are registered before the caches are listed: every existing JobConfig arrives as an add
Start == /\ cache' = api /\ evq' = <<>> /\ jcache' = jobs /\ jevq' = <<>>
         /\ addch' = AddsOf({j \in JCs : api[j].ex}) /\ updch' = <<>> /\ wq' = {} /\ retry' = {} /\ sync' = [w \in Workers |-> Idle]
         /\ heap' = Boot0(now)
         /\ lo' = [j \in JCs |-> IF api[j].ex THEN InitRef(api[j], now) ELSE now] /\ req' = lo'
         /\ lastfired' = <<>> /\ reqs' = {}
Boot == /\ ~booted /\ booted' = TRUE /\ Start
        /\ UNCHANGED <<now, api, jobs, ops, faults, restarts, uidc, ever>>
Restart == /\ booted /\ restarts < MaxRestarts /\ restarts' = restarts + 1 /\ Start
           /\ UNCHANGED <<now, booted, api, jobs, ops, faults, uidc, ever>>

\* ---- cron Reconciler
RetryFire(k) == /\ k \in retry /\ retry' = retry \ {k} /\ wq' = wq \cup {k}
                /\ UNCHANGED <<now, booted, api, cache, evq, addch, updch, heap, sync, jobs, jcache, jevq, ops, faults, restarts, uidc, lo, req, lastfired, reqs, ever>>
\* several reconciler workers take keys from the one work-queue (a key is held by at most one worker)
SyncBegin(k, w) ==
    /\ ~sync[w].busy /\ k \in wq /\ wq' = wq \ {k}
    /\ LET j == k[1]  t == k[2]  o == cache[j] IN
       IF ~o.ex \/ (\E x \in jcache : x.jc = j /\ x.t = t)
       THEN sync' = sync                                                    \* JobConfig gone, or Job already in the cache: done
       ELSE sync' = [sync EXCEPT ![w] = [busy |-> TRUE, jc |-> j, t |-> t, stage |-> "create", uid |-> o.uid]]
    /\ UNCHANGED <<now, booted, api, cache, evq, addch, updch, heap, retry, jobs, jcache, jevq, ops, faults, restarts, uidc, lo, req, lastfired, reqs, ever>>
Step(f, w) ==
    /\ sync[w].busy
    /\ LET j == sync[w].jc  t == sync[w].t  x == [jc |-> j, t |-> t, uid |-> sync[w].uid]
           exists == \E y \in jobs : y.jc = j /\ y.t = t
       IN /\ IF f = "ok" /\ ~exists
             THEN /\ jobs' = jobs \cup {x} /\ jevq' = Append(jevq, [k |-> "add", x |-> x]) /\ retry' = retry /\ faults' = faults /\ ever' = ever \cup {<<j, t>>}
             ELSE /\ (f = "ok" \/ faults < MaxFaults)
                  /\ faults' = IF f = "ok" THEN faults ELSE faults + 1
                  /\ retry' = retry \cup {<<j, t>>} /\ UNCHANGED <<jobs, jevq, ever>>   \* AlreadyExists or injected error: rate-limited requeue
    /\ sync' = [sync EXCEPT ![w] = Idle]
    /\ UNCHANGED <<now, booted, api, cache, evq, addch, updch, heap, wq, jcache, ops, restarts, uidc, lo, req, lastfired, reqs>>

A(name) == act' = name
Next == \/ \E j \in JCs, id \in Ids, dis \in BOOLEAN, w \in Windows, pol \in Pols : UserSet(j, id, dis, w, pol) /\ A("UserSet")
        \/ \E j \in JCs : (UserDelete(j) /\ A("UserDelete")) \/ (StatusSync(j) /\ A("StatusSync"))
        \/ \E d \in 1..MaxTick : Tick(d) /\ A("Tick")
        \/ \E x \in jobs : JobGone(x) /\ A("JobGone")
        \/ (DeliverJC /\ A("DeliverJC")) \/ (RelistJC /\ A("RelistJC")) \/ (DeliverJob /\ A("DeliverJob")) \/ (Work /\ A("Work")) \/ (Boot /\ A("Boot")) \/ (Restart /\ A("Restart"))
        \/ \E k \in retry : RetryFire(k) /\ A("RetryFire")
        \/ \E k \in wq, w \in Workers : SyncBegin(k, w) /\ A("SyncBegin")
        \/ \E f \in {"ok", "error"}, w \in Workers : Step(f, w) /\ A("Step")
Spec == Init /\ [][Next]_vars

\* ---------------------------------------------------------------- properties
Fired(j) == {lastfired[i].t : i \in {k \in 1..Len(lastfired) : lastfired[k].jc = j}}
Contig(F, D) == F = {} \/ \A d \in D : (Min(F) < d /\ d < Max(F)) => d \in F
\* the pass that produced lastfired' ran with the pre-state cache, the ghosts lo/req (re-based for JobConfigs with a delivered change)
PassOK(j) ==
    LET o == cache[j]
        chg == (\E i \in 1..Len(updch) : updch[i] = j) \/ (\E i \in 1..Len(addch) : addch[i].jcid = j /\ heap[j] = None)
        lo1 == IF chg /\ o.ex /\ o.lu # None THEN o.lu ELSE lo[j]
        req1 == IF chg THEN now ELSE req[j]
        D == Due(o)
        F == {lastfired'[i].t : i \in {k \in 1..Len(lastfired') : lastfired'[k].jc = j}}
        R == {d \in D : req1 < d /\ d <= now}
        nx == {d \in D : d > now}
    IN /\ \A t \in F : t <= now                         \* never early
       /\ F \subseteq D                                  \* on schedule, inside the window; nothing when disabled / deleted / no schedule
       /\ \A t \in F : t > lo1                           \* exactly once; nothing back-dated; nothing at or before lastScheduled
       /\ Cardinality(F) <= MaxMissed                    \* cap
       /\ Contig(F, {d \in D : d <= now})
       /\ (IF Cardinality(F) < MaxMissed THEN R \subseteq F ELSE (R # {} => Min(F) <= Min(R)))   \* no gap
       /\ (nx # {} => heap'[j] = Min(nx))               \* the heap follows the schedule
       /\ ((o.ex /\ D = {}) => heap'[j] = None)
C01_C03_C04_Pass == [][act' = "Work" => \A j \in JCs : PassOK(j)]_vars
\* right after a start the heap holds the first due time after the C04 reference
C04_BootHeap == [][act' \in {"Boot", "Restart"} =>
                     \A j \in JCs : LET nx == {d \in Due(api[j]) : d > InitRef(api[j], now)} IN
                                      /\ (nx # {} => heap'[j] = Min(nx))
                                      /\ (Due(api[j]) = {} => heap'[j] = None)]_vars
C02_AtMostOne == \A x, y \in jobs : (x.jc = y.jc /\ x.t = y.t) => x = y
C02_Requested == \A x \in jobs : x.t <= now
Quiescent == booted /\ evq = <<>> /\ jevq = <<>> /\ addch = <<>> /\ updch = <<>> /\ wq = {} /\ retry = {} /\ \A w \in Workers : ~sync[w].busy
\* C02 / C20 goal: at quiescence every request of this controller generation has (or had) its Job, unless its JobConfig is gone or replaced
C20_Served == Quiescent => \A r \in reqs : \/ <<r.jc, r.t>> \in ever
                                            \/ ~api[r.jc].ex \/ api[r.jc].uid # r.uid
                                            \/ ~cache[r.jc].ex
TypeOK == /\ now \in 0..Horizon /\ \A j \in JCs : heap[j] \in {None} \cup 0..Far
====
