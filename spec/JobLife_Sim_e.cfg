\* force deletion after timeout, nodes go down, pending timeout, lagging caches, crash
CONSTANTS N = 2 MaxAtt = 2 Delay = 1 Strategy = "AllSuccessful" PT = 2 FD = 2 TTL = 2 Forbid = FALSE Foreign = FALSE MaxTime = 8 MaxEvq = 3 MaxFaults = 2 MaxCrash = 1 Fresh = FALSE KillDelays = {1} KillEdits = {} UserDeletes = FALSE ExtDeletes = FALSE NodeDowns = TRUE
 Rejects = TRUE
 Holds = FALSE Invalids = FALSE WatchBreaks = FALSE D = 48
SPECIFICATION SSpec
INVARIANT EmitDone
CHECK_DEADLOCK FALSE
