---- MODULE Cron_Goal ----
\* Directed schedule generation for the Cron module (method: see JobLife_Goal.tla). TLC's breadth-first search prints
\* the step labels leading to the first K states (per worker) that satisfy a goal; the harness replays them on the real
\* cron controller (digest compared after every step) and drains.
EXTENDS Cron_Sim, TLCExt
CONSTANTS K, Goals

GView == <<now, booted, api, cache, evq, addch, updch, heap, wq, retry, sync, jobs, jcache, jevq, ops, faults, restarts, uidc, lo, req, lastfired, reqs, ever, act>>
GInit == SInit /\ \A i \in 1..7 : TLCSet(i, 0)
GSpec == GInit /\ [][SNext]_svars

InSeq(s, j) == \E i \in 1..Len(s) : s[i] = j
\* a schedule change has been delivered but not yet flushed while the old schedule's next time in the heap is already due
G_UpdatePendingWhileDue == booted /\ \E j \in JCs : InSeq(updch, j) /\ heap[j] # None /\ heap[j] <= now /\ cache[j].ex
\* the controller has restarted after a downtime longer than the threshold for a JobConfig that had been scheduled before
G_RestartBeyondDowntime == booted /\ restarts > 0 /\ act = "Restart" /\ \E j \in JCs : Enabled(api[j]) /\ api[j].ls # None /\ now - api[j].ls > MaxDown
\* a request is queued for a schedule time whose Job exists already but is not yet in the Job cache
G_RequestWhileJobUnseen == \E k \in wq : (\E x \in jobs : x.jc = k[1] /\ x.t = k[2]) /\ ~(\E x \in jcache : x.jc = k[1] /\ x.t = k[2])
\* a JobConfig was deleted and created again; the cache still holds the old incarnation and its time is due
G_ReincarnatedStaleCache == booted /\ \E j \in JCs : api[j].ex /\ cache[j].ex /\ api[j].uid # cache[j].uid /\ heap[j] # None /\ heap[j] <= now
\* a create failed and waits for its retry while the JobConfig has been disabled or deleted meanwhile
G_RetryAfterDisable == \E k \in retry : faults > 0 /\ (~api[k[1]].ex \/ api[k[1]].dis)
\* both workers hold requests of the same JobConfig
G_TwoWorkersOneConfig == \E w1, w2 \in Workers : w1 # w2 /\ sync[w1].busy /\ sync[w2].busy /\ sync[w1].jc = sync[w2].jc

\* the JobConfig watch has just broken and the re-list showed (by a tombstone only) that a scheduled JobConfig is gone
G_DeletedSeenByRelist == act = "RelistJC" /\ \E j \in JCs : ~cache[j].ex /\ ~api[j].ex /\ heap[j] # None /\ InSeq(updch, j)

EmitGoal(i, name, G) == ~G \/ TLCGet(i) >= K \/ (TLCSet(i, TLCGet(i) + 1) /\ PrintT(<<"SCHED", ToJson(sched), name>>))
Goal1 == EmitGoal(1, "UpdatePendingWhileDue", G_UpdatePendingWhileDue)
Goal2 == EmitGoal(2, "RestartBeyondDowntime", G_RestartBeyondDowntime)
Goal3 == EmitGoal(3, "RequestWhileJobUnseen", G_RequestWhileJobUnseen)
Goal4 == EmitGoal(4, "ReincarnatedStaleCache", G_ReincarnatedStaleCache)
Goal5 == EmitGoal(5, "RetryAfterDisable", G_RetryAfterDisable)
Goal6 == EmitGoal(6, "TwoWorkersOneConfig", G_TwoWorkersOneConfig)
Goal7 == EmitGoal(7, "DeletedSeenByRelist", G_DeletedSeenByRelist)
Stop == \E i \in Goals : TLCGet(i) < K
====
