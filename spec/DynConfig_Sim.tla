---- MODULE DynConfig_Sim ----
\* Schedule generation for the DynConfig module: behaviours of the design
\* specification as sequences of Update / Read labels, replayed on the real
\* ConfigManager (abstract fields f1, f2, ... stand for concrete fields chosen
\* by the harness, rotated per schedule).
EXTENDS DynConfig, Json
CONSTANT D
VARIABLE sched
svars == <<vars, sched>>
Rec(a) == sched' = Append(sched, a)
Enc(c) == [k \in Kinds |-> IF c[k].st = "fields" THEN c[k].f ELSE c[k].st]
SInit == Init /\ sched = <<>>
SNext == \/ \E src \in {"cm", "sec"}, c \in Content : Update(src, c) /\ Rec([a |-> "Update", x |-> src, c |-> Enc(c)])
         \/ \E k \in Kinds : Read(k) /\ Rec([a |-> "Read", k |-> k])
SSpec == SInit /\ [][SNext]_svars
EmitDone == Len(sched) < D \/ PrintT(<<"SCHED", ToJson(sched)>>)
====
