CONSTANTS Kinds = {"jobs"} Fields = {"f1", "f2"} Vals = {"u", "z", "a", "b", "x"} MaxUpdates = 3 MaxReads = 3
SPECIFICATION Spec
INVARIANTS C19_NoPartial C19_NeverBad
PROPERTIES C19_Layering C19_LKG C19_AllOrNothing
CHECK_DEADLOCK FALSE
