---- MODULE JobQueue_Sim ----
\* Schedule generation (binding direction A): the design specification plus a
\* history of action labels. `tlc -simulate` explores random behaviours; every
\* behaviour that reaches length D with no pass in flight is printed as one JSON
\* schedule, which the harness replays step by step on the real controllers.
EXTENDS JobQueue, Json
CONSTANT D
VARIABLE sched
svars == <<vars, sched>>
MCMaxC1 == [c \in JCs |-> 1]
MCMaxC2 == [c \in JCs |-> 2]
Rec(a) == sched' = Append(sched, a)
SInit == Init /\ sched = <<>>
SNext ==
    \/ \E j \in Jobs, c \in Owners, p \in Pols, sa \in StartAfters, s \in Scheds :
          UserCreate(j, c, p, sa, s) /\ Rec([a |-> "UserCreate", j |-> j, c |-> c, p |-> p, sa |-> sa, s |-> s])
    \/ \E j \in Jobs : \/ Finish(j) /\ Rec([a |-> "Finish", j |-> j])
                       \/ "Touch" \in Env /\ Touch(j) /\ Rec([a |-> "Touch", j |-> j])
                       \/ "Delete" \in Env /\ UserDelete(j) /\ Rec([a |-> "UserDelete", j |-> j])
                       \/ "Remove" \in Env /\ Remove(j) /\ Rec([a |-> "Remove", j |-> j])
                       \/ ITimerFire(j) /\ Rec([a |-> "ITimerFire", j |-> j])
                       \/ IRetryFire(j) /\ Rec([a |-> "IRetryFire", j |-> j])
                       \/ ISyncBegin(j) /\ Rec([a |-> "ISyncBegin", j |-> j])
    \/ \E j \in Jobs, sa \in StartAfters : "Postpone" \in Env /\ UserPostpone(j, sa) /\ Rec([a |-> "Postpone", j |-> j, sa |-> sa])
    \/ Tick /\ Rec([a |-> "Tick"])
    \/ Deliver /\ Rec([a |-> "Deliver"])
    \/ StoreDeliver /\ Rec([a |-> "StoreDeliver"])
    \/ JCDeliver /\ Rec([a |-> "JCDeliver"])
    \/ \E c \in JCs : \/ TimerFire(c) /\ Rec([a |-> "TimerFire", c |-> c])
                      \/ RetryFire(c) /\ Rec([a |-> "RetryFire", c |-> c])
                      \/ SyncBegin(c) /\ Rec([a |-> "SyncBegin", c |-> c])
                      \/ JSyncBegin(c) /\ Rec([a |-> "JSyncBegin", c |-> c])
                      \/ JRetryFire(c) /\ Rec([a |-> "JRetryFire", c |-> c])
    \/ StepCount /\ Rec([a |-> "StepCount"])
    \/ StepCas /\ Rec([a |-> "StepCas"])
    \/ StepRollback /\ Rec([a |-> "StepRollback"])
    \/ \E f \in Faults : \/ StepStart(f) /\ Rec([a |-> "StepStart", f |-> f])
                         \/ StepReject(f) /\ Rec([a |-> "StepReject", f |-> f])
                         \/ IStepStart(f) /\ Rec([a |-> "IStepStart", f |-> f])
                         \/ JStepWrite(f) /\ Rec([a |-> "JStepWrite", f |-> f])
    \/ CrashRestart /\ Rec([a |-> "CrashRestart"])
SSpec == SInit /\ [][SNext]_svars
EmitDone == Len(sched) < D \/ PrintT(<<"SCHED", ToJson(sched)>>)
====
