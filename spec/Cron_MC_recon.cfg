CONSTANTS JCs = {1} Horizon = 3 Ids = {1} Windows <- W0 MaxMissed = 2 MaxDown = 2 MaxOps = 1 MaxLag = 1 MaxFaults = 1 MaxRestarts = 1 MaxTick = 2
  Pols = {"Allow"} PreBoot = TRUE WithRecon = TRUE Workers = {1, 2} Relists = FALSE
SPECIFICATION Spec
INVARIANTS TypeOK C02_AtMostOne C02_Requested C20_Served
PROPERTIES C01_C03_C04_Pass C04_BootHeap
CHECK_DEADLOCK FALSE
