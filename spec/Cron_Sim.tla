---- MODULE Cron_Sim ----
\* Schedule generation (binding direction A): the Cron design specification plus
\* a history of action labels, each with a digest of the specification's state
\* after the step (heap per JobConfig in ticks, number of Jobs, queue sizes). The
\* harness replays the labels on the real cron controller and compares the digest
\* with the projection of the real state after every step.
EXTENDS Cron, Json
CONSTANT D
VARIABLE sched
svars == <<vars, sched>>
W0 == {<<-1, -1>>}
W1 == {<<-1, -1>>, <<3, -1>>, <<-1, 5>>, <<2, 6>>}
JcName(j) == IF j = 2 THEN "jc2.v1.x" ELSE "jc" \o ToString(j)
Unix(t) == 1700002800 + 60 * t
Key(k) == JcName(k[1]) \o "." \o ToString(Unix(k[2]))
JobName(x) == JcName(x.jc) \o "-" \o ToString(Unix(x.t))
Digest == [h |-> [j \in JCs |-> heap'[j]], jobs |-> Cardinality(jobs'), wq |-> Cardinality(wq'), rt |-> Cardinality(retry'), ch |-> Len(addch') + Len(updch')]
Rec(a) == sched' = Append(sched, a @@ [ce |-> Digest])
Z(x) == IF x = -1 THEN 0 ELSE x
SInit == Init /\ sched = <<>>
SNext ==
    \/ \E j \in JCs, id \in Ids, dis \in BOOLEAN, w \in Windows, pol \in Pols :
          UserSet(j, id, dis, w, pol) /\ A("UserSet") /\ Rec([a |-> "UserSet", c |-> j, j |-> id, s |-> dis, i |-> Z(w[1]), r |-> Z(w[2]), p |-> pol])
    \/ \E j \in JCs : \/ UserDelete(j) /\ A("UserDelete") /\ Rec([a |-> "UserDelete", c |-> j])
                      \/ StatusSync(j) /\ A("StatusSync") /\ Rec([a |-> "StatusSync", c |-> j])
    \/ \E d \in 1..MaxTick : Tick(d) /\ A("Tick") /\ Rec([a |-> "Tick", d |-> d])
    \/ \E x \in jobs : JobGone(x) /\ A("JobGone") /\ Rec([a |-> "JobGone", k |-> JobName(x)])
    \/ DeliverJC /\ A("DeliverJC") /\ Rec([a |-> "DeliverJC"])
    \/ RelistJC /\ A("RelistJC") /\ Rec([a |-> "JCWatchBreak"])
    \/ DeliverJob /\ A("DeliverJob") /\ Rec([a |-> "DeliverJob"])
    \/ Work /\ A("Work") /\ Rec([a |-> "Work"])
    \/ Boot /\ A("Boot") /\ Rec([a |-> "Boot"])
    \/ Restart /\ A("Restart") /\ Rec([a |-> "Restart"])
    \/ \E k \in retry : RetryFire(k) /\ A("RetryFire") /\ Rec([a |-> "RetryFire", k |-> Key(k)])
    \/ \E k \in wq, w \in Workers : SyncBegin(k, w) /\ A("SyncBegin") /\ Rec([a |-> "SyncBegin", k |-> Key(k), i |-> w])
    \/ \E f \in {"ok", "error"}, w \in Workers : Step(f, w) /\ A("Step") /\ Rec([a |-> "Step", f |-> f, i |-> w])
SSpec == SInit /\ [][SNext]_svars
EmitDone == Len(sched) < D \/ PrintT(<<"SCHED", ToJson(sched)>>)
====
