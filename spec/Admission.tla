---- MODULE Admission ----
\* Functional specification of admission (properties C16, C17).
\*
\* Family A - defaulting of a Job without configName. A request is a record of presence flags / value
\*   classes; -1 = the optional field is absent. Mutate gives the defaulted object in the same shape.
\* Family B - configName expansion: what the created Job receives from the JobConfig and which of the
\*   submitter's values take precedence.
\* Family C - spec.schedule.lastUpdated stamping of JobConfigs as a two-step history.
\* Family U - update immutability: which (old, new) pairs the validating webhook must refuse.
\* Family P - accepted => processable: a chain of implications over a corpus of cron schedules.
EXTENDS Integers, Sequences, FiniteSets, TLC

\* ---------------- Family A
BuiltinTTL == 3600
BuiltinPT == 900
MutateA(c) ==
    [type |-> IF c.type = "" THEN "Adhoc" ELSE c.type,
     ttl |-> IF c.ttl # -1 THEN c.ttl ELSE IF c.cfgttl # -1 THEN c.cfgttl ELSE BuiltinTTL,      \* submitter, else dynamic config, else built-in default
     att |-> IF c.att = -1 THEN 1 ELSE c.att,
     pt |-> IF c.pt # -1 THEN c.pt ELSE IF c.cfgpt # -1 THEN c.cfgpt ELSE BuiltinPT,
     par |-> IF c.par = "nostrat" THEN "AllSuccessful" ELSE IF c.par = "any" THEN "AnySuccessful" ELSE "absent",
     pod |-> IF c.pod = "norestart" THEN "Never" ELSE IF c.pod = "onfailure" THEN "OnFailure" ELSE "absent",
     fin |-> IF c.op = "UPDATE" THEN c.fin
             ELSE CASE c.fin = "none" -> "dd" [] c.fin = "dd" -> "dd" [] c.fin = "x" -> "xdd" [] c.fin = "xdd" -> "xdd"]
\* defaulting is a fixpoint: feeding the defaulted object back changes nothing
AsRequest(c, m) == [c EXCEPT !.spec = TRUE, !.tmpl = "present", !.type = m.type, !.ttl = m.ttl, !.att = m.att, !.pt = m.pt,
                             !.par = IF m.par = "AllSuccessful" THEN "all" ELSE IF m.par = "AnySuccessful" THEN "any" ELSE "absent",
                             !.pod = IF m.pod = "Never" THEN "never" ELSE IF m.pod = "OnFailure" THEN "onfailure" ELSE "absent",
                             !.fin = m.fin]
SpecIdempotentA(c) == LET m == MutateA(c)
                          c2 == [c EXCEPT !.type = m.type, !.ttl = m.ttl, !.att = m.att, !.pt = m.pt, !.fin = m.fin]
                      IN MutateA(c2).type = m.type /\ MutateA(c2).ttl = m.ttl /\ MutateA(c2).att = m.att /\ MutateA(c2).pt = m.pt /\ MutateA(c2).fin = m.fin

\* ---------------- Family B (JobConfig jc1: policy Forbid, option a with default DEF, template label team=a)
MutateB(c) ==
    IF c.cfgname = "missing" THEN [ok |-> FALSE]
    ELSE [ok |-> TRUE,
          owner |-> "jc1", uidlabel |-> "jc1",                       \* always the JobConfig's, whatever the submitter sent
          template |-> "jc1",                                        \* the JobConfig's template, a submitted one is overwritten
          policy |-> IF c.policy \in {"", "sa"} THEN "Forbid" ELSE c.policy,  \* the JobConfig's policy only when none was given ("sa": a startPolicy with a startAfter only)
          opta |-> IF c.subst THEN "EXP" ELSE IF c.optval THEN "VAL" ELSE "DEF",
          jcname |-> IF c.substctx THEN "MINE" ELSE "jc1",           \* jobconfig.name context variable, explicit value wins
          cfgnamecleared |-> TRUE,
          fin |-> IF c.fin = "x" THEN "xdd" ELSE "dd",
          label |-> IF c.label THEN "mine" ELSE "a"]                 \* a submitted label beats the template's label

\* ---------------- Family D: two admissions by configName of a JobConfig whose template leaves the pending timeout unset, with the
\* dynamic-config default changed in between: each Job gets the default in force when IT is admitted
PtD(v) == IF v = -1 THEN BuiltinPT ELSE v

\* ---------------- Family C: sched in {"none","s1","s2","s1off"}; lu classes "unset","past","future"
StampedC(c) == IF c.new = "none" THEN "nosched"
               ELSE IF c.op = "CREATE" \/ c.old = "none" \/ c.old # c.new THEN (IF c.lu = "future" THEN "future" ELSE "now")   \* created or changed: stamped (a later user value is kept)
               ELSE (IF c.lu = "unset" THEN "unset" ELSE c.lu)                                                                  \* unchanged: left as submitted

\* ---------------- Family U: the update is refused iff an immutable field differs
ImmutableFields == {"taskTemplate", "parallelism", "maxAttempts", "retryDelay", "type", "optionValues", "substitutions", "uidlabel"}
RefuseU(c) == IF c.field \in ImmutableFields THEN c.changed
              ELSE IF c.field = "startPolicy" THEN c.changed /\ c.started
              ELSE IF c.field = "killTimestamp" THEN c.changed /\ c.killpassed
              ELSE FALSE   \* mutable fields: ttl, killTimestamp before it passed, startPolicy before start
SpecImmutableU(c) == (c.field \in ImmutableFields /\ c.changed) => RefuseU(c)
====
