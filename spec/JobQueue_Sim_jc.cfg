CONSTANTS Jobs = {1,2,3} JCs = {1} MaxC <- MCMaxC1 MaxTime = 3 MaxLag = 3 MaxFaults = 2 MaxCrashes = 1 MaxTouch = 1
  StoreLag = FALSE AppliedFaults = FALSE StartAfters = {0,2} Owners = {1} Pols = {"Allow","Forbid","Enqueue"} Scheds = {FALSE, TRUE} WithJCSync = TRUE
  Env = {"Delete","Remove"} D = 50
SPECIFICATION SSpec
INVARIANT EmitDone
CHECK_DEADLOCK FALSE
