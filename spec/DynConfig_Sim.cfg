CONSTANTS Kinds = {"jobs", "jobConfigs", "cron"} Fields = {"f1", "f2"} Vals = {"u", "z", "a", "b", "x"} MaxUpdates = 12 MaxReads = 12 D = 24
SPECIFICATION SSpec
INVARIANT EmitDone
CHECK_DEADLOCK FALSE
