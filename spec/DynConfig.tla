---- MODULE DynConfig ----
\* Design specification of furiko's dynamic configuration (property C19).
\*
\* Models pkg/runtime/configloader: three loaders in priority order (built-in
\* defaults < ConfigMap < Secret); each dynamic loader keeps the last content
\* that parsed as a whole (an update with one unparsable entry is dropped
\* entirely); ConfigManager.loadConfig merges the loaders' maps key by key with
\* override, decodes the result into the typed configuration, remembers the last
\* successfully decoded value per configuration name and serves it when the
\* merge or decode fails. A field value is one of: "u" unset, "z" zero / false /
\* empty, "a", "b" two other values, "x" a value of the wrong type (parses as
\* YAML, fails to decode). A kind's content in a source is "absent", "garbage"
\* (does not parse) or a function field -> value.
EXTENDS Integers, Sequences, FiniteSets, TLC

CONSTANTS Kinds, Fields, Vals, MaxUpdates, MaxReads

VARIABLES cm, sec, lkg, last, nupd, nread, lastupd
vars == <<cm, sec, lkg, last, nupd, nread, lastupd>>

AllU == [f \in Fields |-> "u"]
KindContent == {[st |-> "absent", f |-> AllU], [st |-> "garbage", f |-> AllU]} \cup {[st |-> "fields", f |-> g] : g \in [Fields -> Vals]}
Content == [Kinds -> KindContent]
Empty == [k \in Kinds |-> [st |-> "absent", f |-> AllU]]

FieldOf(c, k, f) == c[k].f[f]
\* highest-priority source that sets the field wins, zero values included; "d" = the built-in default
Pick(k, f) == IF FieldOf(sec, k, f) # "u" THEN FieldOf(sec, k, f)
              ELSE IF FieldOf(cm, k, f) # "u" THEN FieldOf(cm, k, f) ELSE "d"
Merged(k) == [f \in Fields |-> Pick(k, f)]
Decodable(k) == \A f \in Fields : Merged(k)[f] # "x"
Parses(c) == \A k \in Kinds : c[k].st # "garbage"

Init == /\ cm = Empty /\ sec = Empty /\ lkg = [k \in Kinds |-> [has |-> FALSE, v |-> AllU]] /\ last = [k |-> "", ok |-> TRUE, res |-> AllU]
        /\ nupd = 0 /\ nread = 0 /\ lastupd = [src |-> "", c |-> Empty]

\* an informer event for the ConfigMap / Secret: the content replaces the loader's cache only if all of it parses
Update(src, c) ==
    /\ nupd < MaxUpdates /\ nupd' = nupd + 1
    /\ IF src = "cm"
       THEN /\ cm' = IF Parses(c) THEN c ELSE cm
            /\ UNCHANGED sec
       ELSE /\ sec' = IF Parses(c) THEN c ELSE sec
            /\ UNCHANGED cm
    /\ lastupd' = [src |-> src, c |-> c]
    /\ UNCHANGED <<lkg, last, nread>>

\* Configs().Jobs() / JobConfigs() / Cron()
Read(k) ==
    /\ nread < MaxReads /\ nread' = nread + 1
    /\ IF Decodable(k)
       THEN /\ last' = [k |-> k, ok |-> TRUE, res |-> Merged(k)] /\ lkg' = [lkg EXCEPT ![k] = [has |-> TRUE, v |-> Merged(k)]]
       ELSE /\ last' = IF ~lkg[k].has THEN [k |-> k, ok |-> FALSE, res |-> AllU] ELSE [k |-> k, ok |-> TRUE, res |-> lkg[k].v]
            /\ UNCHANGED lkg
    /\ UNCHANGED <<cm, sec, nupd, lastupd>>

Next == \/ \E src \in {"cm", "sec"}, c \in Content : Update(src, c)
        \/ \E k \in Kinds : Read(k)
Spec == Init /\ [][Next]_vars

\* ---- properties
\* a source is never partially applied: its cache is the content of one whole accepted update
C19_NoPartial == Parses(cm) /\ Parses(sec)
\* ... and an update either replaces the source's content as a whole or leaves it untouched (all-or-nothing)
C19_AllOrNothing == [][nupd' # nupd =>
                        LET u == lastupd' IN
                        /\ (u.src = "cm" => (cm' = IF Parses(u.c) THEN u.c ELSE cm) /\ sec' = sec)
                        /\ (u.src = "sec" => (sec' = IF Parses(u.c) THEN u.c ELSE sec) /\ cm' = cm)]_vars
\* a successful read served from the sources is the field-wise layering of the current good contents
C19_Layering == [][\A k \in Kinds : (nread' # nread /\ last'.k = k /\ Decodable(k)) =>
                     (last'.ok /\ \A f \in Fields : last'.res[f] =
                        (IF FieldOf(sec, k, f) # "u" THEN FieldOf(sec, k, f) ELSE IF FieldOf(cm, k, f) # "u" THEN FieldOf(cm, k, f) ELSE "d"))]_vars
\* a read that cannot be decoded returns what the last successful read of that kind returned, never an error once one succeeded, never a mixture
C19_LKG == [][\A k \in Kinds : (nread' # nread /\ last'.k = k /\ ~Decodable(k)) =>
                 (IF ~lkg[k].has THEN ~last'.ok ELSE (last'.ok /\ last'.res = lkg[k].v))]_vars
\* the wrongly typed value itself is never served
C19_NeverBad == \A f \in Fields : last.res[f] # "x"
====
