\* one index x two attempts, pending timeout 1, kill one tick ahead, one fault: a task marked killed that then succeeds; a kill deadline passing mid-pass
CONSTANTS N = 1 MaxAtt = 2 Delay = 0 Strategy = "AllSuccessful" PT = 1 FD = 2 TTL = 2 Forbid = FALSE Foreign = FALSE MaxTime = 4 MaxEvq = 2 MaxFaults = 1 MaxCrash = 0 Fresh = TRUE KillDelays = {1} KillEdits = {} UserDeletes = FALSE ExtDeletes = FALSE NodeDowns = FALSE
 Rejects = FALSE Holds = FALSE Invalids = FALSE WatchBreaks = FALSE D = 48 K = 25 Goals = {2, 3}
SPECIFICATION GSpec2
VIEW GView
INVARIANTS Goal2 Goal3 Stop
CHECK_DEADLOCK FALSE
