SPECIFICATION Spec
INVARIANTS InvSpec Emit
CHECK_DEADLOCK FALSE
