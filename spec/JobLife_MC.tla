---- MODULE JobLife_MC ----
EXTENDS JobLife
\* (a VIEW hiding the output-only variable `last` trips a TLC 1.8 serialisation bug in StatePoolWriter once the
\*  state queue spills to disk - "ValueVec.size() because this.elems is null" - so the configurations are run
\*  without a VIEW and sliced by feature instead)
====
