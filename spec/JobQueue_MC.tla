---- MODULE JobQueue_MC ----
EXTENDS JobQueue
MCMaxC1 == [c \in JCs |-> 1]
MCMaxC2 == [c \in JCs |-> 2]
====
