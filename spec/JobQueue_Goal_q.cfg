\* queue controller: failed start write with the slot held, capacity freed with two Jobs waiting, restart with a queued Job
CONSTANTS Jobs = {1,2,3} JCs = {1} MaxC <- MCMaxC1 MaxTime = 2 MaxLag = 3 MaxFaults = 1 MaxCrashes = 1 MaxTouch = 0
  StoreLag = FALSE AppliedFaults = FALSE StartAfters = {0} Owners = {1} Pols = {"Enqueue", "Forbid"} Scheds = {FALSE} WithJCSync = FALSE
  Env = {"Delete"} D = 50 K = 25 Goals = {3, 4, 5, 6}
SPECIFICATION GSpec
VIEW GView
INVARIANTS Goal3 Goal4 Goal5 Goal6 Stop
CHECK_DEADLOCK FALSE
