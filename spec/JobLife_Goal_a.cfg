\* two indexes x two attempts, AnySuccessful, one fault: an unrecorded task when the strategy gets decided
CONSTANTS N = 2 MaxAtt = 2 Delay = 0 Strategy = "AnySuccessful" PT = 0 FD = 2 TTL = 2 Forbid = FALSE Foreign = FALSE MaxTime = 1 MaxEvq = 2 MaxFaults = 1 MaxCrash = 0 Fresh = TRUE KillDelays = {} KillEdits = {} UserDeletes = FALSE ExtDeletes = FALSE NodeDowns = FALSE
 Rejects = FALSE Holds = FALSE Invalids = FALSE WatchBreaks = FALSE D = 48 K = 25 Goals = {1, 7}
SPECIFICATION GSpec2
VIEW GView
INVARIANTS Goal1 Goal7 Stop
CHECK_DEADLOCK FALSE
