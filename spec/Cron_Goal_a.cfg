\* one JobConfig, reconciler with two workers, restarts, one fault (the restart-beyond-downtime goal has its own configuration c)
CONSTANTS JCs = {1} Horizon = 10 Ids = {0,1,2} Windows <- W0 MaxMissed = 2 MaxDown = 3 MaxOps = 3 MaxLag = 2 MaxFaults = 1 MaxRestarts = 1 MaxTick = 4
  Pols = {"Allow"} PreBoot = TRUE WithRecon = TRUE Workers = {1, 2} Relists = FALSE D = 45 K = 20 Goals = {1, 4, 5, 6}
SPECIFICATION GSpec
VIEW GView
INVARIANTS Goal1 Goal4 Goal5 Goal6 Stop
CHECK_DEADLOCK FALSE
