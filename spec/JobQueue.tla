---- MODULE JobQueue ----
\* Design specification of furiko's Job admission path:
\*   activejobstore.Store (counter, CheckAndAdd, rollback Delete, OnUpdate/OnDelete, Recover),
\*   jobqueuecontroller.PerConfigReconciler.SyncOne and IndependentReconciler.SyncOne,
\*   jobqueuecontroller.InformerWorker, reconciler.Controller.work (requeue / Forget),
\*   jobconfigcontroller.Reconciler.SyncOne (status recount, C15),
\* around an API store with resourceVersions, a shared Job cache fed by a watch
\* log, optional per-listener delivery lag for the store's listener, deferred
\* re-syncs (AddAfter), rate-limited retries, write faults and process restart.
\*
\* Written to be bound (DESIGN.md 3.1): one action per *segment* of real code
\* between two observable operations. The observable operations of a per-config
\* pass are: store.CountActiveJobsForConfig ("count"), store.CheckAndAdd ("cas"),
\* the StartJob UpdateStatus ("start"), the RejectJob Update ("reject") and the
\* rollback store.Delete ("rollback"). The harness parks the real pass at
\* exactly these operations.
\*
\* Deliberate abstractions: one JobConfig key per per-config queue entry (JCs is
\* small); Job identity = creation rank; creationTimestamp has 1 s resolution and
\* the sort is unstable (ties in any order); AddAfter durations are not
\* interpreted (a timer may fire at any time once armed); events/recorder not
\* modelled; the neighbouring job controller is the environment (Finish, Touch,
\* Remove).
EXTENDS Integers, Sequences, FiniteSets, TLC, JobQueueProps

CONSTANTS Jobs,        \* 1..N, creation ranks
          JCs,         \* JobConfig ids (subset of 1..2); 0 = independent Job
          MaxC,        \* [JCs -> Nat] maxConcurrency
          MaxTime, MaxLag, MaxFaults, MaxCrashes, MaxTouch,
          StoreLag,    \* BOOLEAN: the store's listener may lag behind the cache (client-go gives no order between listeners)
          AppliedFaults, \* BOOLEAN: "applied-but-error" faults on writes
          StartAfters, Owners, Pols, Scheds,
          Env,         \* subset of {"Touch","Delete","Remove"}: environment actions enabled besides create/finish/tick
          WithJCSync   \* BOOLEAN: jobconfigcontroller status sync (C15)

VARIABLES now, api, cache, evq, storeq, counter,
          wq, timer, retry,           \* per-config queue, per JobConfig: ready-or-dirty / AddAfter armed / AddRateLimited pending
          iq, itimer, iretry,         \* independent queue: sets of Job ids
          sync, isync,                \* in-flight passes
          jcapi, jccache, jcevq, jq, jretry, jsync,   \* JobConfig status objects, their cache, jobconfigcontroller queue and pass
          seen,                       \* ghost (C15): Jobs that were in the cache during some jobconfigcontroller pass
          faults, crashes, touches
vars == <<now, api, cache, evq, storeq, counter, wq, timer, retry, iq, itimer, iretry, sync, isync,
          jcapi, jccache, jcevq, jq, jretry, jsync, seen, faults, crashes, touches>>
envvars == <<now, api, evq>>

Absent == [ex |-> FALSE, jc |-> 0, pol |-> "Allow", sa |-> 0, st |-> None, term |-> FALSE, adm |-> FALSE, admc |-> 0, rv |-> 0, cr |-> 0, del |-> FALSE, sch |-> 0]
Idle == [busy |-> FALSE, jc |-> 0, todo |-> <<>>, ac |-> 0, t0 |-> 0, pend |-> "none", view |-> <<>>]
IIdle == [busy |-> FALSE, j |-> 0, o |-> Absent]
JCStatus0 == [rv |-> 1, active |-> {}, queued |-> {}, lastSch |-> 0, lastExe |-> 0]
JIdle == [busy |-> FALSE, jc |-> 0, rv |-> 0, new |-> JCStatus0, saw |-> {}]

Init == /\ now = 1
        /\ api = [j \in Jobs |-> Absent] /\ cache = [j \in Jobs |-> Absent]
        /\ evq = <<>> /\ storeq = <<>>
        /\ counter = [c \in JCs |-> 0]
        /\ wq = [c \in JCs |-> FALSE] /\ timer = [c \in JCs |-> FALSE] /\ retry = [c \in JCs |-> FALSE]
        /\ iq = {} /\ itimer = {} /\ iretry = {}
        /\ sync = Idle /\ isync = IIdle
        /\ jcapi = [c \in JCs |-> JCStatus0] /\ jccache = [c \in JCs |-> JCStatus0] /\ jcevq = <<>>
        /\ jq = {} /\ jretry = {} /\ jsync = JIdle /\ seen = {}
        /\ faults = 0 /\ crashes = 0 /\ touches = 0

Room == Len(evq) < MaxLag
Emit(j, new) == /\ api' = [api EXCEPT ![j] = new]
                /\ evq' = Append(evq, <<j, api[j], new>>)

\* ---------------------------------------------------------------- environment
UserCreate(j, c, p, sa, s) ==
    /\ ~api[j].ex /\ api[j].rv = 0
    /\ \A k \in Jobs : k < j => api[k].rv > 0
    /\ Room
    /\ Emit(j, [Absent EXCEPT !.ex = TRUE, !.jc = c, !.pol = p, !.sa = sa, !.rv = 1, !.cr = now, !.sch = IF s THEN now ELSE 0])
    /\ UNCHANGED <<now, cache, storeq, counter, wq, timer, retry, iq, itimer, iretry, sync, isync, jcapi, jccache, jcevq, jq, jretry, jsync, seen, faults, crashes, touches>>
\* the job controller writes a terminal phase (finished task, kill, admission error -> phase)
Finish(j) ==
    /\ api[j].ex /\ ~api[j].term /\ Room
    /\ Emit(j, [api[j] EXCEPT !.term = TRUE, !.rv = @ + 1])
    /\ UNCHANGED <<now, cache, storeq, counter, wq, timer, retry, iq, itimer, iretry, sync, isync, jcapi, jccache, jcevq, jq, jretry, jsync, seen, faults, crashes, touches>>
\* any other write to the Job by somebody else (status refresh by the job controller, user label edit): bumps the resourceVersion
Touch(j) ==
    /\ api[j].ex /\ Room /\ touches < MaxTouch
    /\ touches' = touches + 1
    /\ Emit(j, [api[j] EXCEPT !.rv = @ + 1])
    /\ UNCHANGED <<now, cache, storeq, counter, wq, timer, retry, iq, itimer, iretry, sync, isync, jcapi, jccache, jcevq, jq, jretry, jsync, seen, faults, crashes>>
UserDelete(j) ==
    /\ api[j].ex /\ ~api[j].del /\ Room
    /\ Emit(j, [api[j] EXCEPT !.del = TRUE, !.rv = @ + 1])
    /\ UNCHANGED <<now, cache, storeq, counter, wq, timer, retry, iq, itimer, iretry, sync, isync, jcapi, jccache, jcevq, jq, jretry, jsync, seen, faults, crashes, touches>>
\* the user edits startAfter of a Job that has not started (startPolicy is mutable until then)
UserPostpone(j, sa) ==
    /\ api[j].ex /\ ~Started(api[j]) /\ sa # api[j].sa /\ Room /\ touches < MaxTouch
    /\ touches' = touches + 1
    /\ Emit(j, [api[j] EXCEPT !.sa = sa, !.rv = @ + 1])
    /\ UNCHANGED <<now, cache, storeq, counter, wq, timer, retry, iq, itimer, iretry, sync, isync, jcapi, jccache, jcevq, jq, jretry, jsync, seen, faults, crashes>>
\* the object leaves the API (finalizer dropped, or no finalizer)
Remove(j) ==
    /\ api[j].ex /\ Room
    /\ Emit(j, [api[j] EXCEPT !.ex = FALSE])
    /\ UNCHANGED <<now, cache, storeq, counter, wq, timer, retry, iq, itimer, iretry, sync, isync, jcapi, jccache, jcevq, jq, jretry, jsync, seen, faults, crashes, touches>>
Tick == /\ now < MaxTime /\ now' = now + 1
        /\ UNCHANGED <<api, cache, evq, storeq, counter, wq, timer, retry, iq, itimer, iretry, sync, isync, jcapi, jccache, jcevq, jq, jretry, jsync, seen, faults, crashes, touches>>

\* ---------------------------------------------------------------- informers
\* activejobstore.Store.OnUpdate / OnDelete exactly as coded (only Jobs carrying the JobConfig UID label)
StoreHandle(ctr, old, new) ==
    IF old.jc = 0 \/ ~old.ex THEN ctr
    ELSE IF ~new.ex THEN (IF Active(old) THEN [ctr EXCEPT ![old.jc] = @ - 1] ELSE ctr)
    ELSE IF Active(old) /\ ~Active(new) THEN [ctr EXCEPT ![old.jc] = @ - 1]
    ELSE IF ~Active(old) /\ Active(new) /\ ~(~Started(old) /\ Started(new)) THEN [ctr EXCEPT ![old.jc] = @ + 1]
    ELSE ctr

\* one watch event: indexer update, then the listeners (jobqueue handler, jobconfig handler, store listener)
Deliver ==
    /\ evq # <<>>
    /\ LET e == Head(evq)  o == IF e[3].ex THEN e[3] ELSE e[2] IN
        /\ cache' = [cache EXCEPT ![e[1]] = e[3]]
        /\ evq' = Tail(evq)
        /\ IF o.jc # 0 THEN wq' = [wq EXCEPT ![o.jc] = TRUE] /\ iq' = iq
                       ELSE wq' = wq /\ iq' = iq \cup {e[1]}
        /\ jq' = IF WithJCSync /\ o.jc # 0 THEN jq \cup {o.jc} ELSE jq
        /\ IF StoreLag
             THEN storeq' = Append(storeq, e) /\ counter' = counter
             ELSE storeq' = storeq /\ counter' = StoreHandle(counter, e[2], e[3])
    /\ UNCHANGED <<now, api, timer, retry, itimer, iretry, sync, isync, jcapi, jccache, jcevq, jretry, jsync, seen, faults, crashes, touches>>
StoreDeliver ==
    /\ storeq # <<>>
    /\ counter' = StoreHandle(counter, Head(storeq)[2], Head(storeq)[3])
    /\ storeq' = Tail(storeq)
    /\ UNCHANGED <<now, api, cache, evq, wq, timer, retry, iq, itimer, iretry, sync, isync, jcapi, jccache, jcevq, jq, jretry, jsync, seen, faults, crashes, touches>>
TimerFire(c) == /\ timer[c] /\ timer' = [timer EXCEPT ![c] = FALSE] /\ wq' = [wq EXCEPT ![c] = TRUE]
                /\ UNCHANGED <<now, api, cache, evq, storeq, counter, retry, iq, itimer, iretry, sync, isync, jcapi, jccache, jcevq, jq, jretry, jsync, seen, faults, crashes, touches>>
RetryFire(c) == /\ retry[c] /\ retry' = [retry EXCEPT ![c] = FALSE] /\ wq' = [wq EXCEPT ![c] = TRUE]
                /\ UNCHANGED <<now, api, cache, evq, storeq, counter, timer, iq, itimer, iretry, sync, isync, jcapi, jccache, jcevq, jq, jretry, jsync, seen, faults, crashes, touches>>
ITimerFire(j) == /\ j \in itimer /\ itimer' = itimer \ {j} /\ iq' = iq \cup {j}
                 /\ UNCHANGED <<now, api, cache, evq, storeq, counter, wq, timer, retry, iretry, sync, isync, jcapi, jccache, jcevq, jq, jretry, jsync, seen, faults, crashes, touches>>
IRetryFire(j) == /\ j \in iretry /\ iretry' = iretry \ {j} /\ iq' = iq \cup {j}
                 /\ UNCHANGED <<now, api, cache, evq, storeq, counter, wq, timer, retry, itimer, sync, isync, jcapi, jccache, jcevq, jq, jretry, jsync, seen, faults, crashes, touches>>

\* ---------------------------------------------------------------- per-config pass
\* snapshots (id + object as listed from the cache) sorted by creationTimestamp; ties in any order
Snaps(c) == LET Q == {j \in Jobs : Queued(cache[j]) /\ cache[j].jc = c}
                n == Cardinality(Q)
            IN { [i \in 1..n |-> [id |-> f[i], o |-> cache[f[i]]]] :
                   f \in {g \in [1..n -> Q] : /\ \A a, b \in 1..n : a # b => g[a] # g[b]
                                              /\ \A a, b \in 1..n : a < b => cache[g[a]].cr <= cache[g[b]].cr} }

\* the loop of SyncOne from the head of todo, with active count ac, up to the next observable operation
RECURSIVE Loop(_, _, _, _)
Loop(c, todo, ac, tmr) ==
    IF todo = <<>> THEN [todo |-> <<>>, pend |-> "end", tmr |-> tmr]
    ELSE LET o == Head(todo).o IN
         IF o.sa > now THEN Loop(c, Tail(todo), ac, TRUE)
         ELSE IF o.pol = "Forbid" /\ ac + 1 > MaxC[c] THEN [todo |-> todo, pend |-> "reject", tmr |-> tmr]
         ELSE IF o.pol = "Enqueue" /\ ac + 1 > MaxC[c] THEN Loop(c, Tail(todo), ac, tmr)
         ELSE [todo |-> todo, pend |-> "cas", tmr |-> tmr]

SyncBegin(c) ==
    /\ wq[c] /\ ~sync.busy
    /\ wq' = [wq EXCEPT ![c] = FALSE]
    /\ \E sn \in Snaps(c) :
          sync' = IF sn = <<>> THEN Idle
                  ELSE [busy |-> TRUE, jc |-> c, todo |-> sn, ac |-> 0, t0 |-> now, pend |-> "count",
                        view |-> [k \in {sn[i].id : i \in 1..Len(sn)} |-> cache[k]]]
    /\ UNCHANGED <<now, api, cache, evq, storeq, counter, timer, retry, iq, itimer, iretry, isync, jcapi, jccache, jcevq, jq, jretry, jsync, seen, faults, crashes, touches>>

\* continue the loop after ac is known; end of pass = success (Forget)
Continue(c, todo, ac) ==
    LET r == Loop(c, todo, ac, timer[c]) IN
    /\ timer' = [timer EXCEPT ![c] = r.tmr]
    /\ sync' = IF r.pend = "end" THEN Idle ELSE [sync EXCEPT !.todo = r.todo, !.ac = ac, !.pend = r.pend]
Abort(c) == /\ sync' = Idle /\ retry' = [retry EXCEPT ![c] = TRUE]

WriteOK(j, o) == api[j].ex /\ api[j].rv = o.rv

StepCount ==
    /\ sync.busy /\ sync.pend = "count"
    /\ Continue(sync.jc, sync.todo, counter[sync.jc])
    /\ UNCHANGED <<now, api, cache, evq, storeq, counter, wq, retry, iq, itimer, iretry, isync, jcapi, jccache, jcevq, jq, jretry, jsync, seen, faults, crashes, touches>>
StepCas ==
    /\ sync.busy /\ sync.pend = "cas"
    /\ IF counter[sync.jc] = sync.ac
         THEN /\ counter' = [counter EXCEPT ![sync.jc] = @ + 1]
              /\ sync' = [sync EXCEPT !.pend = "start"]
              /\ UNCHANGED retry
         ELSE /\ Abort(sync.jc) /\ UNCHANGED counter
    /\ UNCHANGED <<now, api, cache, evq, storeq, wq, timer, iq, itimer, iretry, isync, jcapi, jccache, jcevq, jq, jretry, jsync, seen, faults, crashes, touches>>
\* f: "ok" (the API decides: success or conflict/not-found), "error" (injected, no effect), "applied" (effect + error)
StepStart(f) ==
    /\ sync.busy /\ sync.pend = "start"
    /\ LET j == Head(sync.todo).id  o == Head(sync.todo).o IN
       /\ (f # "ok") => (faults < MaxFaults /\ (f = "applied" => (AppliedFaults /\ WriteOK(j, o))))
       /\ faults' = IF f = "ok" THEN faults ELSE faults + 1
       /\ IF f # "error" /\ WriteOK(j, o)
            THEN /\ Room /\ Emit(j, [api[j] EXCEPT !.st = now, !.rv = @ + 1])
            ELSE UNCHANGED <<api, evq>>
       /\ IF f = "ok" /\ WriteOK(j, o)
            THEN sync' = [sync EXCEPT !.todo = Tail(sync.todo), !.pend = "count"]
            ELSE sync' = [sync EXCEPT !.pend = "rollback"]
    /\ UNCHANGED <<now, cache, storeq, counter, wq, timer, retry, iq, itimer, iretry, isync, jcapi, jccache, jcevq, jq, jretry, jsync, seen, crashes, touches>>
StepRollback ==
    /\ sync.busy /\ sync.pend = "rollback"
    /\ counter' = [counter EXCEPT ![sync.jc] = @ - 1]
    /\ Abort(sync.jc)
    /\ UNCHANGED <<now, api, cache, evq, storeq, wq, timer, iq, itimer, iretry, isync, jcapi, jccache, jcevq, jq, jretry, jsync, seen, faults, crashes, touches>>
StepReject(f) ==
    /\ sync.busy /\ sync.pend = "reject"
    /\ LET j == Head(sync.todo).id  o == Head(sync.todo).o
           noop == o.adm /\ o.admc = sync.ac   \* same message again: the Update changes nothing, the API server does not write
       IN
       /\ (f # "ok") => (faults < MaxFaults /\ f = "error")
       /\ faults' = IF f = "ok" THEN faults ELSE faults + 1
       /\ IF f = "ok" /\ WriteOK(j, o)
            THEN /\ IF noop THEN UNCHANGED <<api, evq>>
                    ELSE Room /\ Emit(j, [api[j] EXCEPT !.adm = TRUE, !.admc = sync.ac, !.rv = @ + 1])
                 /\ Continue(sync.jc, Tail(sync.todo), sync.ac)
                 /\ UNCHANGED retry
            ELSE /\ Abort(sync.jc) /\ UNCHANGED <<api, evq, timer>>
    /\ UNCHANGED <<now, cache, storeq, counter, wq, iq, itimer, iretry, isync, jcapi, jccache, jcevq, jq, jretry, jsync, seen, crashes, touches>>

\* ---------------------------------------------------------------- independent pass
ISyncBegin(j) ==
    /\ j \in iq /\ ~isync.busy
    /\ iq' = iq \ {j}
    /\ LET o == cache[j] IN
       IF ~Queued(o) THEN UNCHANGED <<itimer, isync>>
       ELSE IF o.sa > now THEN itimer' = itimer \cup {j} /\ UNCHANGED isync
       ELSE isync' = [busy |-> TRUE, j |-> j, o |-> o] /\ UNCHANGED itimer
    /\ UNCHANGED <<now, api, cache, evq, storeq, counter, wq, timer, retry, iretry, sync, jcapi, jccache, jcevq, jq, jretry, jsync, seen, faults, crashes, touches>>
IStepStart(f) ==
    /\ isync.busy
    /\ LET j == isync.j  o == isync.o IN
       /\ (f # "ok") => (faults < MaxFaults /\ (f = "applied" => (AppliedFaults /\ WriteOK(j, o))))
       /\ faults' = IF f = "ok" THEN faults ELSE faults + 1
       /\ IF f # "error" /\ WriteOK(j, o)
            THEN /\ Room /\ Emit(j, [api[j] EXCEPT !.st = now, !.rv = @ + 1])
            ELSE UNCHANGED <<api, evq>>
       /\ iretry' = IF f = "ok" /\ WriteOK(j, o) THEN iretry ELSE iretry \cup {j}
       /\ isync' = IIdle
    /\ UNCHANGED <<now, cache, storeq, counter, wq, timer, retry, iq, itimer, sync, jcapi, jccache, jcevq, jq, jretry, jsync, seen, crashes, touches>>

\* ---------------------------------------------------------------- jobconfigcontroller (C15)
MaxOf(S) == IF S = {} THEN 0 ELSE CHOOSE m \in S : \A x \in S : x <= m
Recount(c, old) ==
    LET mine == {j \in Jobs : cache[j].ex /\ cache[j].jc = c} IN
    [rv |-> old.rv,
     active |-> {j \in mine : Active(cache[j])},
     queued |-> {j \in mine : Queued(cache[j])},
     lastSch |-> MaxOf({old.lastSch} \cup {cache[j].sch : j \in mine}),
     lastExe |-> MaxOf({old.lastExe} \cup {cache[j].st : j \in {k \in mine : Started(cache[k])}})]
JCDeliver ==
    /\ jcevq # <<>>
    /\ jccache' = [jccache EXCEPT ![Head(jcevq)[1]] = Head(jcevq)[2]]
    /\ jq' = jq \cup {Head(jcevq)[1]}
    /\ jcevq' = Tail(jcevq)
    /\ UNCHANGED <<now, api, cache, evq, storeq, counter, wq, timer, retry, iq, itimer, iretry, sync, isync, jcapi, jretry, jsync, seen, faults, crashes, touches>>
JSyncBegin(c) ==
    /\ WithJCSync /\ c \in jq /\ ~jsync.busy
    /\ jq' = jq \ {c}
    /\ LET new == Recount(c, jccache[c])
           saw == {j \in Jobs : cache[j].ex /\ cache[j].jc = c} IN
       \* ghost: a Job counts as seen only by a pass that ends successfully (the status is the controller's only memory)
       IF new = jccache[c] THEN jsync' = JIdle /\ seen' = seen \cup saw
       ELSE jsync' = [busy |-> TRUE, jc |-> c, rv |-> jccache[c].rv, new |-> new, saw |-> saw] /\ UNCHANGED seen
    /\ UNCHANGED <<now, api, cache, evq, storeq, counter, wq, timer, retry, iq, itimer, iretry, sync, isync, jcapi, jccache, jcevq, jretry, faults, crashes, touches>>
JStepWrite(f) ==
    /\ jsync.busy
    /\ LET c == jsync.jc IN
       /\ (f # "ok") => (faults < MaxFaults /\ f = "error")
       /\ faults' = IF f = "ok" THEN faults ELSE faults + 1
       /\ IF f = "ok" /\ jcapi[c].rv = jsync.rv
            THEN /\ Len(jcevq) < MaxLag
                 /\ jcapi' = [jcapi EXCEPT ![c] = [jsync.new EXCEPT !.rv = jsync.rv + 1]]
                 /\ jcevq' = Append(jcevq, <<c, [jsync.new EXCEPT !.rv = jsync.rv + 1]>>)
                 /\ seen' = seen \cup jsync.saw
                 /\ UNCHANGED jretry
            ELSE /\ jretry' = jretry \cup {c} /\ UNCHANGED <<jcapi, jcevq, seen>>
       /\ jsync' = JIdle
    /\ UNCHANGED <<now, api, cache, evq, storeq, counter, wq, timer, retry, iq, itimer, iretry, sync, isync, jccache, jq, crashes, touches>>
JRetryFire(c) == /\ c \in jretry /\ jretry' = jretry \ {c} /\ jq' = jq \cup {c}
                 /\ UNCHANGED <<now, api, cache, evq, storeq, counter, wq, timer, retry, iq, itimer, iretry, sync, isync, jcapi, jccache, jcevq, jsync, seen, faults, crashes, touches>>

\* ---------------------------------------------------------------- crash + restart
\* every in-memory structure is lost; caches relist (every object is an Add: handlers enqueue), Recover recounts from the cache
CrashRestart ==
    /\ crashes < MaxCrashes /\ crashes' = crashes + 1
    /\ cache' = api /\ evq' = <<>> /\ storeq' = <<>>
    /\ counter' = [c \in JCs |-> TrueActive(api, c)]
    /\ wq' = [c \in JCs |-> TRUE]       \* every JobConfig is reconciled once when it is added to the cache (and for each of its Jobs' add events)
    /\ timer' = [c \in JCs |-> FALSE] /\ retry' = [c \in JCs |-> FALSE]
    /\ iq' = {j \in Jobs : api[j].ex /\ api[j].jc = 0} /\ itimer' = {} /\ iretry' = {}
    /\ sync' = Idle /\ isync' = IIdle
    /\ jccache' = jcapi /\ jcevq' = <<>> /\ jq' = (IF WithJCSync THEN JCs ELSE {}) /\ jretry' = {} /\ jsync' = JIdle
    /\ UNCHANGED <<now, api, jcapi, seen, faults, touches>>

Faults == {"ok", "error", "applied"}
Next == \/ \E j \in Jobs, c \in Owners, p \in Pols, sa \in StartAfters, s \in Scheds : UserCreate(j, c, p, sa, s)
        \/ \E j \in Jobs : Finish(j) \/ ("Touch" \in Env /\ Touch(j)) \/ ("Delete" \in Env /\ UserDelete(j)) \/ ("Remove" \in Env /\ Remove(j))
        \/ \E j \in Jobs, sa \in StartAfters : "Postpone" \in Env /\ UserPostpone(j, sa)
        \/ Tick \/ Deliver \/ StoreDeliver
        \/ \E c \in JCs : TimerFire(c) \/ RetryFire(c) \/ SyncBegin(c) \/ JSyncBegin(c) \/ JRetryFire(c)
        \/ \E j \in Jobs : ITimerFire(j) \/ IRetryFire(j) \/ ISyncBegin(j)
        \/ StepCount \/ StepCas \/ StepRollback
        \/ \E f \in Faults : StepStart(f) \/ StepReject(f) \/ IStepStart(f) \/ JStepWrite(f)
        \/ JCDeliver \/ CrashRestart
Spec == Init /\ [][Next]_vars

\* ---------------------------------------------------------------- properties
Quiescent == /\ evq = <<>> /\ storeq = <<>> /\ jcevq = <<>>
             /\ \A c \in JCs : ~wq[c] /\ ~retry[c]
             /\ iq = {} /\ iretry = {} /\ jq = {} /\ jretry = {}
             /\ ~sync.busy /\ ~isync.busy /\ ~jsync.busy
\* an armed deferred re-sync whose deadline may have passed is pending work (durations are not interpreted):
\* the state is quiet only if no queued Job of that JobConfig is already due
TimersNotDue == /\ \A c \in JCs : timer[c] => \A j \in Jobs : (Queued(api[j]) /\ api[j].jc = c) => api[j].sa > now
                /\ \A j \in itimer : api[j].sa > now \/ ~Queued(api[j])
Quiet == Quiescent /\ TimersNotDue

Pass == [t0 |-> sync.t0, view |-> sync.view]
C05_Admission == [][C05_AdmissionStep(api, api', MaxC)]_vars
C06_Fifo == [][sync.busy => C06_FifoStep(api, api', Pass)]_vars
C06_EnqNeverRefused == C06_EnqueueNeverRefused(api)
C06_AllowNotRefused == C06_AllowNeverRefused(api)
C06_RefusedAtLimit == C06_RefusedOnlyAtLimit(api, MaxC)
C06_NoStuckQ == Quiet => C06_NoStuck(api, now, MaxC)
C07_NeverEarly == C07_NotEarly(api)
C07_NeverEarlyStep == [][C07_NotEarlyStep(api, api', now')]_vars
C07_IndepStarts == Quiet => C07_IndependentStarts(api, now)
C07_DueStartsQ == Quiet => C07_DueStarts(api, now, MaxC)
C07_RefusedWhenDue == [][C07_RefusedOnlyWhenDueStep(api, api', now')]_vars
C11_StartStable == [][C11_StartTimeStable(api, api')]_vars
\* supporting invariants (localise a violation; not property verdicts)
S_CounterNonNeg == \A c \in JCs : counter[c] >= 0
S_CounterExact == (Quiescent /\ (faults = 0 \/ ~AppliedFaults)) => \A c \in JCs : counter[c] = TrueActive(api, c)
S_CounterSafe == (~sync.busy /\ storeq = <<>> /\ evq = <<>> /\ (faults = 0 \/ ~AppliedFaults)) => \A c \in JCs : counter[c] >= TrueActive(api, c)

\* C15 on the design
C15_ExactQ == (WithJCSync /\ Quiescent) =>
    \A c \in JCs : /\ jcapi[c].active = {j \in Jobs : Active(api[j]) /\ api[j].jc = c}
                   /\ jcapi[c].queued = {j \in Jobs : Queued(api[j]) /\ api[j].jc = c}
C15_Monotone == [][\A c \in JCs : jcapi'[c].lastSch >= jcapi[c].lastSch /\ jcapi'[c].lastExe >= jcapi[c].lastExe]_vars
C15_CoversQ == (WithJCSync /\ Quiescent) =>
    \A j \in seen : api[j].jc # 0 => (jcapi[api[j].jc].lastSch >= api[j].sch)

\* state-space reduction: ghost/bookkeeping counters are not part of the view
View == <<now, api, cache, evq, storeq, counter, wq, timer, retry, iq, itimer, iretry, sync, isync,
          jcapi, jccache, jcevq, jq, jretry, jsync, seen, faults, crashes, touches>>
====
