\* jobconfigcontroller status sync (C15) next to the admission path
CONSTANTS Jobs = {1,2} MaxTime = 1 MaxLag = 2 MaxFaults = 1 MaxCrashes = 0 MaxTouch = 0 StartAfters = {0} Env = {"Remove"} Pols = {"Enqueue"} Owners = {1} StoreLag = FALSE
  JCs = {1} MaxC <- MCMaxC1 AppliedFaults = FALSE Scheds = {TRUE} WithJCSync = TRUE
SPECIFICATION Spec
VIEW View
INVARIANTS C06_NoStuckQ C07_NeverEarly S_CounterNonNeg S_CounterExact C15_ExactQ C15_CoversQ
PROPERTIES C05_Admission C06_Fifo C15_Monotone
CHECK_DEADLOCK FALSE
