\* two indexes, AllSuccessful, lagging caches, user delete, crash: a Job recorded finished next to a live task; deletion continued after a restart
CONSTANTS N = 2 MaxAtt = 1 Delay = 0 Strategy = "AllSuccessful" PT = 2 FD = 2 TTL = 2 Forbid = FALSE Foreign = FALSE MaxTime = 3 MaxEvq = 2 MaxFaults = 0 MaxCrash = 1 Fresh = FALSE KillDelays = {} KillEdits = {} UserDeletes = TRUE ExtDeletes = FALSE NodeDowns = FALSE
 Rejects = FALSE Holds = FALSE Invalids = FALSE WatchBreaks = FALSE D = 48 K = 25 Goals = {4, 5}
SPECIFICATION GSpec2
VIEW GView
INVARIANTS Goal4 Goal5 Stop
CHECK_DEADLOCK FALSE
