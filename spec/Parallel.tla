---- MODULE Parallel ----
\* Functional specification of parallel index expansion (property C14).
\*
\* A parallelism spec is one of
\*    [kind |-> "count",  n |-> N]
\*    [kind |-> "keys",   keys |-> <<k1, ..., kn>>]
\*    [kind |-> "matrix", mk |-> <<key1, ...>> (the matrix keys in sorted order), mv |-> <<values of key1, ...>>]
\* Expand gives the indexes in the order furiko must produce them (GenerateIndexes /
\* GenerateMatrixCombinations: 0..N-1; the keys as listed; the cartesian product with the keys in
\* sorted order and the LAST key varying fastest). Each index has an identity (a task-name component
\* and a status slot); the identity function of the implementation is a 6-character hash which the
\* specification leaves uninterpreted: distinct indexes must have distinct identities (ASSUMPTION
\* discharged on the real HashIndex by the monitor, per case). The variables a task receives are a
\* function of its index (Vars).
EXTENDS Integers, Sequences, FiniteSets, TLC

RECURSIVE Prod(_, _)
\* all combinations (as sequences of <<key, value>> pairs) of the rows mk[i..], first key slowest
Prod(mk, mv) == IF mk = <<>> THEN << <<>> >>
                ELSE LET rest == Prod(Tail(mk), Tail(mv))
                         row == Head(mv)
                         F[i \in 0..Len(row)] == IF i = 0 THEN <<>> ELSE F[i - 1] \o [j \in 1..Len(rest) |-> << <<Head(mk), row[i]>> >> \o rest[j]]
                     IN F[Len(row)]

Expand(c) == CASE c.kind = "count" -> [i \in 1..c.n |-> [num |-> i - 1]]
               [] c.kind = "keys" -> [i \in 1..Len(c.keys) |-> [key |-> c.keys[i]]]
               [] c.kind = "matrix" -> LET P == Prod(c.mk, c.mv) IN [i \in 1..Len(P) |-> [m |-> P[i]]]

NoDupSeq(s) == \A i, j \in 1..Len(s) : i # j => s[i] # s[j]
RowsProduct(c) == LET F[i \in 0..Len(c.mv)] == IF i = 0 THEN 1 ELSE F[i - 1] * Len(c.mv[i]) IN F[Len(c.mv)]
Size(c) == CASE c.kind = "count" -> c.n [] c.kind = "keys" -> Len(c.keys) [] c.kind = "matrix" -> RowsProduct(c)

\* the inputs for which "every index is distinct" can hold at all
\* (kind "mixed": more than one of withCount / withKeys / withMatrix is set - the requested index set is not defined)
InputDistinct(c) == CASE c.kind = "count" -> TRUE
                      [] c.kind = "mixed" -> TRUE
                      [] c.kind = "keys" -> NoDupSeq(c.keys)
                      [] c.kind = "matrix" -> \A i \in 1..Len(c.mv) : NoDupSeq(c.mv[i])
\* what admission must at least refuse
WellFormed(c) == CASE c.kind = "count" -> c.n > 0
                   [] c.kind = "mixed" -> FALSE
                   [] c.kind = "keys" -> Len(c.keys) > 0 /\ \A i \in 1..Len(c.keys) : c.keys[i] # ""
                   [] c.kind = "matrix" -> Len(c.mk) > 0 /\ \A i \in 1..Len(c.mv) : Len(c.mv[i]) > 0 /\ \A j \in 1..Len(c.mv[i]) : c.mv[i][j] # ""
MustReject(c) == ~WellFormed(c) \/ ~InputDistinct(c)

\* variables of the task of index x
Vars(x) == IF "num" \in DOMAIN x THEN [kind |-> "num", num |-> x.num]
           ELSE IF "key" \in DOMAIN x THEN [kind |-> "key", key |-> x.key]
           ELSE [kind |-> "matrix", m |-> x.m]

\* ---- properties of the specification itself (checked by TLC on every enumerated case)
S_Size == \A c \in {} : TRUE
SpecSize(c) == Len(Expand(c)) = Size(c)
SpecDistinct(c) == NoDupSeq(Expand(c)) <=> InputDistinct(c)
====
