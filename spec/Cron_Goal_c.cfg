\* one JobConfig, one worker, no faults: a restart after a downtime longer than the threshold
CONSTANTS JCs = {1} Horizon = 10 Ids = {0,1,2} Windows <- W0 MaxMissed = 2 MaxDown = 3 MaxOps = 2 MaxLag = 2 MaxFaults = 0 MaxRestarts = 1 MaxTick = 4
  Pols = {"Allow"} PreBoot = TRUE WithRecon = TRUE Workers = {1} Relists = FALSE D = 45 K = 20 Goals = {2}
SPECIFICATION GSpec
VIEW GView
INVARIANTS Goal2 Stop
CHECK_DEADLOCK FALSE
