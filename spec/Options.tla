---- MODULE Options ----
\* Functional specification of option evaluation and variable substitution (property C18).
\*
\* An option config is a record with a type and its type-specific settings; a submitted value is
\*    [k |-> "absent"] | [k |-> "null"] | [k |-> "str", s |-> ...] | [k |-> "num"] | [k |-> "bool", b |-> ...]
\*    | [k |-> "list", l |-> <<...>>] | [k |-> "badlist"] (a list with a non-string element).
\* Eval gives [ok |-> FALSE] (the Job is rejected) or [ok |-> TRUE, v |-> the one string the option evaluates to].
\* Strings are taken from a small catalogue; Trim is defined on that catalogue.
EXTENDS Integers, Sequences, FiniteSets, TLC

Trim(s) == CASE s = " d " -> "d" [] s = "  " -> "" [] s = " v1 " -> "v1" [] OTHER -> s
Reject == [ok |-> FALSE, v |-> ""]
Val(s) == [ok |-> TRUE, v |-> s]
InSeq(x, q) == \E i \in 1..Len(q) : q[i] = x
RECURSIVE Join(_, _)
Join(q, d) == IF q = <<>> THEN "" ELSE IF Len(q) = 1 THEN q[1] ELSE q[1] \o d \o Join(Tail(q), d)

Given(val) == val.k \notin {"absent", "null"}          \* "no value was given" = absent or null

EvalString(o, val) ==
    IF Given(val) /\ val.k # "str" THEN Reject ELSE
    LET raw == IF Given(val) THEN val.s ELSE o.def
        v == IF o.trim THEN Trim(raw) ELSE raw
    IN IF o.required /\ v = "" THEN Reject ELSE Val(v)
EvalSelect(o, val) ==
    IF Given(val) /\ val.k # "str" THEN Reject ELSE
    LET v == IF Given(val) THEN val.s ELSE o.def IN
    IF v # "" /\ ~o.custom /\ ~InSeq(v, o.values) THEN Reject
    ELSE IF v = "" /\ o.required THEN Reject ELSE Val(v)
EvalMulti(o, val) ==
    IF Given(val) /\ val.k # "list" THEN Reject ELSE
    LET given == IF Given(val) THEN val.l ELSE <<>>
        v == IF given = <<>> THEN o.def ELSE given
    IN IF v = <<>> /\ o.required THEN Reject
       ELSE IF \E i \in 1..Len(v) : (~o.custom /\ ~InSeq(v[i], o.values)) \/ v[i] = "" THEN Reject
       ELSE Val(Join(v, o.delim))
Fmt(o, b) == CASE o.format = "TrueFalse" -> IF b THEN "true" ELSE "false"
               [] o.format = "OneZero" -> IF b THEN "1" ELSE "0"
               [] o.format = "YesNo" -> IF b THEN "yes" ELSE "no"
               [] o.format = "Custom" -> IF b THEN o.tv ELSE o.fv
EvalBool(o, val) ==
    IF Given(val) /\ val.k # "bool" THEN Reject
    ELSE Val(Fmt(o, IF Given(val) THEN val.b ELSE o.def))
\* dates: one fixed instant, two formats with a known rendering
Render(fmt) == CASE fmt = "YYYY-MM-DD" -> "2021-02-09" [] fmt = "HH:mm" -> "04:06"
EvalDate(o, val) ==
    IF Given(val) /\ val.k # "str" THEN Reject ELSE
    LET s == IF Given(val) THEN val.s ELSE "" IN
    IF s = "" THEN (IF o.required THEN Reject ELSE Val(""))
    ELSE IF s = "2021-02-09T04:06:09Z" THEN Val(Render(o.format)) ELSE Reject

Eval(o, val) == CASE o.type = "string" -> EvalString(o, val)
                  [] o.type = "select" -> EvalSelect(o, val)
                  [] o.type = "multi" -> EvalMulti(o, val)
                  [] o.type = "bool" -> EvalBool(o, val)
                  [] o.type = "date" -> EvalDate(o, val)
\* what the JobConfig's defaults produce (MakeDefaultOptions): the evaluation of "no value", without the required check
Absent == [k |-> "absent"]
Default(o) == Eval([o EXCEPT !.required = FALSE], Absent).v

\* ---- the specification's own properties (checked on every enumerated case)
SpecDefaultAgrees(o) == Eval(o, Absent).ok => Eval(o, Absent).v = Default(o)
SpecNullIsAbsent(o) == Eval(o, [k |-> "null"]) = Eval(o, Absent)
SpecSelectConstraint(o, val) == (o.type = "select" /\ Eval(o, val).ok /\ Eval(o, val).v # "" /\ ~o.custom) => InSeq(Eval(o, val).v, o.values)
SpecRequired(o, val) == (o.required /\ Eval(o, val).ok) => Eval(o, val).v # ""

\* ---- substitution: sources in priority order (highest first), each a partial map name -> value; template = sequence of tokens,
\* a token is [var |-> name] or [txt |-> text]; reserved prefixes job. / jobconfig. / task. / option.
Lookup(srcs, name) == LET hit == {i \in 1..Len(srcs) : name \in DOMAIN srcs[i]} IN
                      IF hit = {} THEN [found |-> FALSE, v |-> ""] ELSE [found |-> TRUE, v |-> srcs[CHOOSE i \in hit : \A j \in hit : i <= j][name]]
SubstTok(srcs, tok, reserved) == IF "txt" \in DOMAIN tok THEN tok.txt
                                 ELSE LET r == Lookup(srcs, tok.var) IN
                                      IF r.found THEN r.v ELSE IF tok.res THEN "" ELSE "${" \o tok.var \o "}"
RECURSIVE Subst(_, _, _)
Subst(srcs, tmpl, reserved) == IF tmpl = <<>> THEN "" ELSE SubstTok(srcs, Head(tmpl), reserved) \o Subst(srcs, Tail(tmpl), reserved)
====
