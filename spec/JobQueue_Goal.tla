---- MODULE JobQueue_Goal ----
\* Directed schedule generation for the JobQueue module (see JobLife_Goal.tla for the method): TLC's breadth-first
\* search prints the step labels that lead to the first K states (per worker) satisfying each goal; the harness replays
\* them on the real store / queue controller / jobconfig controller and continues with seeded random steps.
EXTENDS JobQueue_Sim, TLCExt
CONSTANTS K, Goals
VARIABLE lastact     \* the label of the last step (part of the VIEW: "the controller has just restarted" is a goal ingredient)

GView == <<now, api, cache, evq, storeq, counter, wq, timer, retry, iq, itimer, iretry, sync, isync,
           jcapi, jccache, jcevq, jq, jretry, jsync, seen, faults, crashes, touches, lastact>>
GInit == SInit /\ lastact = "Init" /\ \A i \in 1..7 : TLCSet(i, 0)
GNext == SNext /\ lastact' = sched'[Len(sched')].a
GSpec == GInit /\ [][GNext]_<<svars, lastact>>

Listed(c) == jcapi[c].active \cup jcapi[c].queued
\* the jobconfig controller's own status write has not reached its JobConfig cache, and a Job that this status lists
\* has meanwhile left the API or finished without starting
G_StatusAheadJobGone ==
    \E c \in JCs : /\ jcapi[c] # jccache[c] /\ ~jsync.busy
                   /\ \E j \in Listed(c) : (~api[j].ex \/ (api[j].term /\ ~Started(api[j])))
\* ... and the status it wrote carries a last-scheduled time that only that Job justified
G_StatusAheadSchedGone ==
    \E c \in JCs : /\ jcapi[c] # jccache[c] /\ ~jsync.busy /\ jcapi[c].lastSch > jccache[c].lastSch
                   /\ \E j \in Jobs : api[j].jc = c /\ ~api[j].ex /\ api[j].rv > 0 /\ api[j].sch = jcapi[c].lastSch
                   /\ \E k \in Jobs : api[k].ex /\ api[k].jc = c /\ cache[k] # api[k]
\* the start write of a per-config pass has failed after the slot was reserved
G_StartFailedSlotHeld == sync.busy /\ sync.pend = "rollback"
\* two due Enqueue Jobs of one JobConfig are queued, its limit is reached and the active Job has just finished
G_TwoQueuedCapacityFreed ==
    \E c \in JCs : \E j, k \in Jobs :
        /\ j < k /\ api[j].jc = c /\ api[k].jc = c /\ Queued(api[j]) /\ Queued(api[k]) /\ api[j].pol = "Enqueue" /\ api[k].pol = "Enqueue"
        /\ api[j].sa <= now /\ api[k].sa <= now /\ ~sync.busy
        /\ TrueActive(api, c) < MaxC[c] /\ counter[c] >= MaxC[c]
\* the controller has just restarted while a due Job of a JobConfig was queued and another one active
G_RestartWithQueued ==
    /\ lastact = "CrashRestart" /\ \E j \in Jobs : api[j].jc # 0 /\ Queued(api[j]) /\ api[j].sa <= now /\ ~api[j].adm
    /\ \E k \in Jobs : Active(api[k]) /\ api[k].jc # 0

\* the controller has just restarted while an active Job of a JobConfig was being deleted (deletionTimestamp set, not yet finished)
\* and another Job of that JobConfig was waiting
G_RestartWithDeletingActive ==
    /\ lastact = "CrashRestart"
    /\ \E k \in Jobs : Active(api[k]) /\ api[k].del /\ api[k].jc # 0
                       /\ \E j \in Jobs : api[j].jc = api[k].jc /\ Queued(api[j]) /\ api[j].sa <= now /\ ~api[j].adm /\ api[j].pol # "Allow"

\* the controller has just restarted while a JobConfig with maxConcurrency 2 had two active Jobs and a third one waiting
G_RestartAtLimitTwo ==
    /\ lastact = "CrashRestart"
    /\ \E c \in JCs : MaxC[c] = 2 /\ TrueActive(api, c) = 2
                      /\ \E j \in Jobs : api[j].jc = c /\ Queued(api[j]) /\ api[j].sa <= now /\ ~api[j].adm /\ api[j].pol # "Allow"

EmitGoal(i, name, G) == ~G \/ TLCGet(i) >= K \/ (TLCSet(i, TLCGet(i) + 1) /\ PrintT(<<"SCHED", ToJson(sched), name>>))
Goal1 == EmitGoal(1, "StatusAheadJobGone", G_StatusAheadJobGone)
Goal2 == EmitGoal(2, "StatusAheadSchedGone", G_StatusAheadSchedGone)
Goal3 == EmitGoal(3, "StartFailedSlotHeld", G_StartFailedSlotHeld)
Goal4 == EmitGoal(4, "TwoQueuedCapacityFreed", G_TwoQueuedCapacityFreed)
Goal5 == EmitGoal(5, "RestartWithQueued", G_RestartWithQueued)
Goal6 == EmitGoal(6, "RestartWithDeletingActive", G_RestartWithDeletingActive)
Goal7 == EmitGoal(7, "RestartAtLimitTwo", G_RestartAtLimitTwo)
Stop == \E i \in Goals : TLCGet(i) < K
====
