CONSTANTS JCs = {1} Horizon = 4 Ids = {0,1,2} Windows <- W0 MaxMissed = 2 MaxDown = 3 MaxOps = 2 MaxLag = 1 MaxFaults = 0 MaxRestarts = 0 MaxTick = 2
  Pols = {"Allow"} PreBoot = FALSE WithRecon = FALSE Workers = {1} Relists = FALSE
SPECIFICATION Spec
INVARIANTS TypeOK C02_AtMostOne C02_Requested C20_Served
PROPERTIES C01_C03_C04_Pass C04_BootHeap
CHECK_DEADLOCK FALSE
