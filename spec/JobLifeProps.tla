---- MODULE JobLifeProps ----
\* Property formulas of C08-C13 as operators over explicit state arguments,
\* shared by the log-driven monitor (MonJobLife) and the design specification
\* (JobLife, through its projection to the same record shapes).
\*
\* job  = [ex, started, st, kill, del, fz, adm, phase, state, conds, kind, result, fints, created, running,
\*         refs (sequence of [name, idx, retry, cr, run, fin, res, state, why, dstat])]
\* pods = sequence of [name, idx, retry, mine, phase, oom, del, cr, ran, fin]
\* cfg  = [n, maxatt, delay, strategy, pt, ttl, fd, forbid, foreign]
\* pass = [now0, j, p]  the clock, cached Job and Pod cache at the SyncBegin of the pass performing a step
\* ever = set of [name, idx, retry] of owned Pods ever present in the API
\* succ = set of indexes that have a task that really reached Succeeded
EXTENDS Integers, Sequences, FiniteSets

Range(s) == {s[i] : i \in 1..Len(s)}
Names(ps) == {p.name : p \in Range(ps)}
Mine(ps) == {p \in Range(ps) : p.mine}
Alive(p) == p.phase \notin {"Succeeded", "Failed"}
IdxOf(cfg) == 0..(cfg.n - 1)
RefsOf(j, i) == {r \in Range(j.refs) : r.idx = i}
PodNamed(ps, n) == {p \in Range(ps) : p.name = n}

\* ---------- strategy helpers ----------
Satisfied(cfg, succ) == IF cfg.strategy = "AllSuccessful" THEN IdxOf(cfg) \subseteq succ ELSE succ # {}
\* finished attempts of index i according to a Job status
FinishedRefs(j, i) == {r \in RefsOf(j, i) : r.fin # 0}
\* index i can no longer succeed: maxatt attempts are over in truth (their Pods finished, gone or being deleted)
OverInTruth(pods, e) == ~\E p \in Mine(pods) : p.name = e.name /\ Alive(p) /\ p.del = 0
ExhaustedTruth(cfg, pods, ever, succ, i) ==
    /\ i \notin succ
    /\ Cardinality({e \in ever : e.idx = i /\ OverInTruth(pods, e)}) >= cfg.maxatt
DecidedTruth(cfg, pods, ever, succ) ==
    IF cfg.strategy = "AnySuccessful"
    THEN succ # {} \/ \A i \in IdxOf(cfg) : ExhaustedTruth(cfg, pods, ever, succ, i)
    ELSE IdxOf(cfg) \subseteq succ \/ \E i \in IdxOf(cfg) : ExhaustedTruth(cfg, pods, ever, succ, i)
\* decided according to a Job status (what the controller recorded)
ExhaustedRec(cfg, j, i) == Cardinality(FinishedRefs(j, i)) >= cfg.maxatt /\ ~\E r \in RefsOf(j, i) : r.res = "Succeeded"
SucceededRec(j, i) == \E r \in RefsOf(j, i) : r.res = "Succeeded"
DecidedRec(cfg, j) ==
    IF cfg.strategy = "AnySuccessful"
    THEN (\E i \in IdxOf(cfg) : SucceededRec(j, i)) \/ \A i \in IdxOf(cfg) : ExhaustedRec(cfg, j, i)
    ELSE (\A i \in IdxOf(cfg) : SucceededRec(j, i)) \/ \E i \in IdxOf(cfg) : ExhaustedRec(cfg, j, i)

\* decided according to what a pass could see at its SyncBegin (cached Job status merged with the Pod cache): an attempt is
\* over in that view if its recorded ref is finished, its cached Pod is terminal, or it is recorded but its Pod is absent
\* from the cache (lost)
ViewAttempts(pass, i) == {r.name : r \in RefsOf(pass.j, i)} \cup {q.name : q \in {x \in Mine(pass.p) : x.idx = i}}
OverInView(pass, n) == \/ \E r \in Range(pass.j.refs) : r.name = n /\ r.fin # 0
                       \/ \E q \in Range(pass.p) : q.name = n /\ ~Alive(q)
                       \/ ~\E q \in Range(pass.p) : q.name = n
SuccInView(pass, i) == \/ \E r \in RefsOf(pass.j, i) : r.res = "Succeeded"
                       \/ \E q \in Mine(pass.p) : q.idx = i /\ q.phase = "Succeeded" /\ ~q.oom
ExhaustedView(cfg, pass, i) == ~SuccInView(pass, i) /\ Cardinality({n \in ViewAttempts(pass, i) : OverInView(pass, n)}) >= cfg.maxatt
DecidedView(cfg, pass) ==
    IF cfg.strategy = "AnySuccessful"
    THEN (\E i \in IdxOf(cfg) : SuccInView(pass, i)) \/ \A i \in IdxOf(cfg) : ExhaustedView(cfg, pass, i)
    ELSE (\A i \in IdxOf(cfg) : SuccInView(pass, i)) \/ \E i \in IdxOf(cfg) : ExhaustedView(cfg, pass, i)

\* the same, but only through tasks the cached status records (their Pods refreshed from the Pod cache): tasks that exist in the
\* Pod cache without being recorded (created by a pass whose status write was lost) are adopted only on the create path
RecView(pass) == [pass EXCEPT !.p = SelectSeq(pass.p, LAMBDA q : \E r \in Range(pass.j.refs) : r.name = q.name)]
DecidedViewRec(cfg, pass) == DecidedView(cfg, RecView(pass))

\* ---------- C08 ----------
C08_OneLive(cfg, pods) == \A i \in IdxOf(cfg) : Cardinality({p \in Mine(pods) : p.idx = i /\ Alive(p)}) <= 1
NewPods(pods, podsN) == {p \in Mine(podsN) : p.name \notin Names(pods)}
\* retry numbers 0,1,2,.. in creation order, never more than maxAttempts, each attempt created at most once
\* known = attempts the controller has ever recorded in the API status, plus owned Pods that exist: an attempt that
\* was created but vanished before any status write recorded it is unknowable and may be created again
C08_OrderStep(cfg, pods, podsN, known) ==
    \A p \in NewPods(pods, podsN) :
        /\ p.retry = Cardinality({e \in known : e.idx = p.idx})
        /\ p.retry < cfg.maxatt
        /\ ~\E e \in known : e.name = p.name
\* a retry is created only after the previous attempt's recorded finish + retryDelay
C08_DelayStep(cfg, pods, podsN, pass, nowN) ==
    \A p \in NewPods(pods, podsN) : p.retry > 0 =>
        \A x \in RefsOf(pass.j, p.idx) : x.fin # 0 /\ nowN >= x.fin + cfg.delay
\* creation gates, judged on what the creating pass could see
C08_GatesStep(cfg, pods, podsN, pass, succRec) ==
    \A p \in NewPods(pods, podsN) :
        /\ p.idx \notin succRec      \* the index has a task whose success the controller has recorded in the API
        /\ pass.j.ex /\ pass.j.started /\ pass.j.kill = 0 /\ ~pass.j.adm /\ ~pass.j.del
        /\ ~SucceededRec(pass.j, p.idx)
        /\ ~DecidedRec(cfg, pass.j)
        \* nor when the Job is complete in what the pass listed (cached status merged with its Pod cache), even if no status recorded it yet
        /\ ~DecidedView(cfg, pass)
        \* nor for an index one of whose recorded tasks the pass could see as succeeded in its Pod cache
        /\ ~\E q \in Mine(pass.p) : q.idx = p.idx /\ q.phase = "Succeeded" /\ ~q.oom /\ \E r \in Range(pass.j.refs) : r.name = q.name

\* ---------- C09 ----------
C09_KeepStep(job, jobN) ==
    (job.ex /\ jobN.ex) => \A r \in Range(job.refs) : \E x \in Range(jobN.refs) :
        x.name = r.name /\ (r.run # 0 => x.run = r.run) /\ (r.fin # 0 => x.fin # 0)
                        \* a recorded success is a last known state for good (a Job being deleted re-labels the tasks it removes)
                        /\ ((r.res = "Succeeded" /\ ~jobN.del) => x.res = "Succeeded")
C09_NotLost(job, pods) ==
    job.ex => \A r \in Range(job.refs) : \A p \in Mine(pods) :
        (p.name = r.name /\ Alive(p) /\ p.del = 0) => (r.fin = 0 /\ r.state # "DeletedFinalStateUnknown")
C09_NoForeignAdopt(job, pods) ==
    job.ex => \A r \in Range(job.refs) : \A p \in Range(pods) : p.name = r.name => p.mine
C09_Listed(job, pods) == (job.ex /\ ~job.del) => \A p \in Mine(pods) : \E r \in Range(job.refs) : r.name = p.name
\* ... and only a foreign object does: the Job's own task, created but not yet visible in the Pod cache, is never a reason
C09_AdmOnlyForeignStep(job, jobN, admTruthN) == (jobN.ex /\ jobN.adm /\ ~job.adm) => admTruthN
\* a foreign object occupying a needed task name ends the Job in AdmissionError (instead of waiting forever)
C09_ForeignEnds(job, pods) ==
    ((\E p \in Range(pods) : ~p.mine) /\ job.ex /\ job.started /\ ~job.del /\ job.kill = 0) => job.phase = "AdmissionError"

\* ---------- C10 ----------
C10_SuccOnly(cfg, job, succ) == (job.ex /\ job.result = "Success") => Satisfied(cfg, succ)
C10_FailOnly(cfg, job, pods, ever, succ) ==
    (job.ex /\ job.result = "Failed") =>
        IF cfg.strategy = "AllSuccessful" THEN \E i \in IdxOf(cfg) : ExhaustedTruth(cfg, pods, ever, succ, i)
        ELSE \A i \in IdxOf(cfg) : ExhaustedTruth(cfg, pods, ever, succ, i)
\* a recorded task result agrees with the task object while that object still shows its final state
C10_RefMatchesTask(job, pods) ==
    job.ex => \A r \in Range(job.refs) : \A p \in Mine(pods) :
        (p.name = r.name /\ ~Alive(p) /\ r.res \in {"Succeeded", "Failed"}) =>
            (r.res = "Succeeded" <=> (p.phase = "Succeeded" /\ ~p.oom))
C10_NoLiveAtFinishStep(job, jobN, podsN) ==
    (jobN.ex /\ jobN.kind = "Finished" /\ job.kind # "Finished" /\ ~jobN.del)
        => ~\E p \in Mine(podsN) : Alive(p)
\* once decided (as recorded) the Job reaches that result
\* a task on an unresponsive node that may not be force-deleted legitimately keeps the Job from finishing
StuckPod(cfg, pods, nokube) == \E p \in Mine(pods) : Alive(p) /\ p.name \in nokube /\ (cfg.forbid \/ cfg.fd = 0)
C10_Reaches(cfg, job, pods, nokube) ==
    (job.ex /\ job.started /\ ~job.del /\ ~job.adm /\ job.kill = 0 /\ DecidedRec(cfg, job) /\ ~StuckPod(cfg, pods, nokube)) =>
        /\ job.kind = "Finished"
        /\ ~\E p \in Mine(pods) : Alive(p) /\ p.del = 0
\* an undecided, unkilled, started Job keeps working: every index that has neither succeeded nor used up its attempts has a live attempt
\* (an index whose latest attempt finished less than retryDelay ago is waiting for its retry: the drain may end inside that delay)
C10_Progress(cfg, job, pods, now) ==
    (job.ex /\ job.started /\ ~job.del /\ ~job.adm /\ job.kill = 0 /\ job.kind # "Finished" /\ ~DecidedRec(cfg, job)) =>
        \A i \in IdxOf(cfg) : \/ SucceededRec(job, i) \/ ExhaustedRec(cfg, job, i)
                               \/ (\E p \in Mine(pods) : p.idx = i /\ Alive(p))
                               \/ (/\ RefsOf(job, i) # {}
                                   /\ (\A r \in RefsOf(job, i) : r.fin # 0)
                                   /\ (\E r \in RefsOf(job, i) : now < r.fin + cfg.delay))

\* ---------- C11 ----------
StateOf(k) == CASE k = "Queueing" -> "Queued" [] k = "Waiting" -> "Waiting" [] k = "Running" -> "Running" [] k = "Finished" -> "Finished" [] OTHER -> "?"
Terminal(ph) == ph \in {"Succeeded", "Failed", "Killed", "AdmissionError", "FinishedUnknown"}
C11_Coherent(job) ==
    (job.ex /\ job.phase # "") =>
        /\ job.conds = 1
        /\ job.state = StateOf(job.kind)
        /\ (Terminal(job.phase) <=> job.kind = "Finished")
        /\ job.created = Len(job.refs)
        /\ job.running = Cardinality({r \in Range(job.refs) : r.run # 0 /\ r.fin = 0})
C11_MonotoneStep(job, jobN, editedN) ==
    (job.ex /\ jobN.ex) =>
        /\ (job.started => (jobN.started /\ jobN.st = job.st))
        /\ (job.kind = "Finished" => jobN.kind = "Finished")
        \* "unless the user edits or deletes it": a Job that is being deleted, or whose killTimestamp was set after it finished, is exempt
        /\ ((job.kind = "Finished" /\ ~editedN /\ ~jobN.del) => (jobN.result = job.result /\ jobN.fints = job.fints))
        /\ jobN.created >= job.created

\* ---------- C12 ----------
\* a graceful, controller-issued delete of a live owned Pod must have a reason that is valid at that instant
C12_DeleteJustifiedStep(cfg, dels, pods, podsN, pass, nowN, everN, succN) ==
    \A p \in Mine(pods) : (p.name \in dels /\ Alive(p) /\ p.del = 0) =>
        \/ (pass.j.kill # 0 /\ pass.j.kill <= nowN)
        \* pending timeout, judged on what the pass could see of the task of that name: the cached Pod (its creation time,
        \* never seen running), or - for a Pod the pass created itself - the Pod's own creation time
        \/ (cfg.pt > 0 /\ \E q \in PodNamed(pass.p, p.name) : ~q.ran /\ nowN >= q.cr + cfg.pt)
        \/ (cfg.pt > 0 /\ (\A q \in PodNamed(pass.p, p.name) : q.uid # p.uid) /\ nowN >= p.cr + cfg.pt)   \* (also when the cache held an earlier object of that name)
        \/ pass.j.del
        \/ DecidedTruth(cfg, podsN, everN, succN)
        \/ DecidedView(cfg, pass)
\* a kill timestamp that had passed before the step is never changed or removed by it (admission keeps it immutable)
C12_KillStickyStep(job, jobN, now) == (job.ex /\ jobN.ex /\ job.kill # 0 /\ job.kill <= now) => jobN.kill = job.kill
C12_ForceGateStep(cfg, fdels, pods, pass, nowN) ==
    \A p \in Mine(pods) : p.name \in fdels =>
        /\ cfg.fd > 0 /\ ~cfg.forbid
        \* the deletion timestamp is the one the pass could see on the task of that name (or the Pod's own)
        /\ \/ (p.del # 0 /\ nowN >= p.del + cfg.fd)
           \/ \E q \in PodNamed(pass.p, p.name) : q.del # 0 /\ nowN >= q.del + cfg.fd
\* a task reaped for pending timeout is recorded as a killed attempt (reason PendingTimeout) and counts towards maxAttempts
C12_KillCompletes(cfg, job, pods, now, nokube) ==
    (job.ex /\ job.started /\ ~job.del /\ job.kill # 0 /\ job.kill <= now) =>
        /\ (\A p \in Mine(pods) : Alive(p) => (p.name \in nokube /\ (cfg.forbid \/ cfg.fd = 0)))
        /\ ((\A p \in Mine(pods) : ~Alive(p)) => job.phase \in {"Killed", "AdmissionError"})
\* the same two goals at a quiet point in the middle of the drain: a task on an unresponsive node whose graceful deletion is under way
\* may still be inside the force-delete timeout
WaitsForForce(cfg, p, nokube, now) == p.name \in nokube /\ (cfg.forbid \/ cfg.fd = 0 \/ (p.del # 0 /\ now < p.del + cfg.fd))
C12_KillCompletesAt(cfg, job, pods, now, nokube) ==
    (job.ex /\ job.started /\ ~job.del /\ job.kill # 0 /\ job.kill <= now) =>
        \A p \in Mine(pods) : Alive(p) => WaitsForForce(cfg, p, nokube, now)
C12_PendingCompletesAt(cfg, job, pods, now, nokube) ==
    (job.ex /\ job.started /\ ~job.del /\ cfg.pt > 0) =>
        \A p \in Mine(pods) : (Alive(p) /\ ~p.ran /\ now >= p.cr + cfg.pt) => WaitsForForce(cfg, p, nokube, now)
C10_ReachesAt(cfg, job, pods, nokube, now) ==
    (job.ex /\ job.started /\ ~job.del /\ ~job.adm /\ job.kill = 0 /\ DecidedRec(cfg, job) /\ ~\E p \in Mine(pods) : Alive(p) /\ WaitsForForce(cfg, p, nokube, now)) =>
        /\ job.kind = "Finished"
        /\ ~\E p \in Mine(pods) : Alive(p) /\ p.del = 0
C12_PendingCompletes(cfg, job, pods, now, nokube) ==
    (job.ex /\ job.started /\ ~job.del /\ cfg.pt > 0) =>
        \A p \in Mine(pods) : (Alive(p) /\ ~p.ran /\ now >= p.cr + cfg.pt) => (p.name \in nokube /\ (cfg.forbid \/ cfg.fd = 0))

\* ---------- C13 ----------
C13_OrderStep(job, jobN, podsN) == (job.ex /\ ~jobN.ex) => \A r \in Range(job.refs) : ~\E p \in Range(podsN) : p.name = r.name /\ p.mine
\* ... nor any other task it owns (a task that was created but never recorded, because the status write of that pass was lost)
C13_OrderAllStep(job, jobN, podsN) == (job.ex /\ ~jobN.ex) => ~\E p \in Mine(podsN) : TRUE
\* judged when the Job leaves the API after a controller-issued delete at instant ttlAt: it must be finished, and the
\* delete must not precede (finish + TTL) for the recorded finish time or for the instant doneAt at which the Job
\* was over in truth (the recorded finish time can move later when the write that records it is retried)
\* or for the finish time an up-to-date pass computes once the Job is over: the latest finish time of its tasks
\* (lastFin, ground truth), else the kill time
\* viewKill: the kill timestamp in the cached Job of the pass that issued the delete (0 = none). A user's later edit of a
\* kill timestamp that had not passed (knowledge lag, DESIGN 3.7) does not make that delete early.
C13_TTLNotEarlyStep(cfg, job, jobN, ttlAt, userDeleted, doneAt, lastFin, viewKill) ==
    (job.ex /\ ~jobN.ex /\ ttlAt # 0 /\ ~userDeleted) =>
        \/ (job.kind = "Finished" /\ ttlAt >= job.fints + cfg.ttl)
        \/ (viewKill # 0 /\ viewKill # job.kill /\ viewKill <= ttlAt /\ ttlAt >= (IF lastFin # 0 THEN lastFin ELSE viewKill) + cfg.ttl)
        \/ (doneAt # 0 /\ ttlAt >= doneAt + cfg.ttl)
        \/ (doneAt # 0 /\ lastFin # 0 /\ ttlAt >= lastFin + cfg.ttl)
        \/ (doneAt # 0 /\ lastFin = 0 /\ job.kill # 0 /\ ttlAt >= job.kill + cfg.ttl)
C13_DeletionCompletes(job, pods, nokube) == (job.ex /\ job.del /\ ~job.hold) => \E p \in Mine(pods) : p.name \in nokube
C13_TTLEventually(cfg, job, now) == (job.ex /\ job.kind = "Finished" /\ now >= job.fints + cfg.ttl) => job.del
====
