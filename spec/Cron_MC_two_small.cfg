CONSTANTS JCs = {1,2} Horizon = 4 Ids = {0,1,2} Windows <- W0 MaxMissed = 1 MaxDown = 2 MaxOps = 2 MaxLag = 2 MaxFaults = 0 MaxRestarts = 1 MaxTick = 2
  Pols = {"Allow"} PreBoot = TRUE WithRecon = FALSE Workers = {1} Relists = FALSE
SPECIFICATION Spec
INVARIANTS TypeOK
PROPERTIES C01_C03_C04_Pass C04_BootHeap
CHECK_DEADLOCK FALSE
