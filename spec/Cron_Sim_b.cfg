CONSTANTS JCs = {1,2,3} Horizon = 18 Ids = {0,1,2,3} Windows <- W1 MaxMissed = 1 MaxDown = 1 MaxOps = 8 MaxLag = 3 MaxFaults = 3 MaxRestarts = 2 MaxTick = 5
  Pols = {"Allow"} PreBoot = TRUE WithRecon = TRUE Workers = {1, 2} Relists = FALSE D = 60
SPECIFICATION SSpec
INVARIANT EmitDone
CHECK_DEADLOCK FALSE
