CONSTANTS Kinds = {"jobs", "cron"} Fields = {"f1", "f2"} Vals = {"u", "z", "a", "x"} MaxUpdates = 3 MaxReads = 3
SPECIFICATION Spec
INVARIANTS C19_NoPartial C19_NeverBad
PROPERTIES C19_Layering C19_LKG
CHECK_DEADLOCK FALSE
