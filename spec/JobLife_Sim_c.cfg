\* one index x three attempts, a foreign object, fresh caches, Pods removed externally
CONSTANTS N = 1 MaxAtt = 3 Delay = 1 Strategy = "AllSuccessful" PT = 2 FD = 2 TTL = 2 Forbid = FALSE Foreign = TRUE MaxTime = 8 MaxEvq = 3 MaxFaults = 2 MaxCrash = 0 Fresh = TRUE KillDelays = {} KillEdits = {} UserDeletes = FALSE ExtDeletes = TRUE NodeDowns = FALSE
 Rejects = FALSE
 Holds = FALSE Invalids = FALSE WatchBreaks = FALSE D = 48
SPECIFICATION SSpec
INVARIANT EmitDone
CHECK_DEADLOCK FALSE
