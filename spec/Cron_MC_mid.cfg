CONSTANTS JCs = {1} Horizon = 7 Ids = {1,2} Windows <- W1 MaxMissed = 2 MaxDown = 3 MaxOps = 3 MaxLag = 1 MaxFaults = 0 MaxRestarts = 1 MaxTick = 3
  Pols = {"Allow"} PreBoot = TRUE WithRecon = FALSE Workers = {1} Relists = FALSE
SPECIFICATION Spec
INVARIANTS TypeOK
PROPERTIES C01_C03_C04_Pass C04_BootHeap
CHECK_DEADLOCK FALSE
