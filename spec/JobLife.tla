---- MODULE JobLife ----
\* Design specification of furiko's job controller (pkg/execution/controllers/jobcontroller)
\* reconciling ONE Job against its task Pods, written to be bound to the code:
\*
\*   * one action per segment of a reconcile pass between two observable operations:
\*       SyncBegin  = workqueue Get .. first gated API call (reads the Job cache and the Pod cache)
\*       Step       = release the pending API call (create Pod / delete Job / update Job / update Job status),
\*                    optionally with an injected fault, and run to the next gated call or to the end of the pass
\*     Pod deletes are issued from ConcurrentTasks goroutines; they are not gated and belong to the segment
\*     that issues them (they commute), exactly as the harness merges them.
\*   * the in-memory state the code keeps: the cached Job and cached Pods (informer caches with independent,
\*     ordered, lagging event queues), the work-queue (ready / rate-limited retry / AddAfter timer), the pass
\*     in flight with the snapshots it took (the status write carries the cached resourceVersion).
\*   * the status functions are transcriptions of GenerateTaskRefs / GetTaskRef / GetParallelStatus /
\*     GetCondition (DESIGN.md appendix B.2, validated against the real functions).
\*   * environment: kubelet (start, finish ok / failed, graceful deletion completes, node down), user (kill
\*     timestamp now or later, delete), the queue controller's start write, somebody deleting a Pod outright,
\*     clock, informer deliveries, timers, retries, API faults on every gated call, crash + restart.
\*
\* Deliberate abstractions: one Job; time is a small integer; resourceVersion is a counter; the Pod spec is
\* opaque; events, metrics and log output are omitted; `run` of a task is a flag (not a time); the foreign
\* object, when configured, occupies the name of attempt 0 of index 0.
\*
\* Cache skew. The real controller acts on whatever its caches hold. Two families of histories violate the
\* listed properties on the real code and are recorded as known findings (known_findings.json): a pass that
\* begins while its Job cache lacks task state the controller already wrote (jobcache-stale) or while its
\* Pod cache lacks an owned Pod that exists (podcache-behind) and then acts. The ghost `taint` is raised
\* exactly as spec/trace/MonJobLife.tla raises it; with Fresh = TRUE passes only begin on up-to-date caches
\* (taint stays ""), with Fresh = FALSE the properties are checked in the form  Prop \/ taint # "".
EXTENDS Integers, Sequences, FiniteSets, TLC

CONSTANTS N,            \* number of parallel indexes
          MaxAtt,       \* maxAttempts
          Delay,        \* retryDelaySeconds
          Strategy,     \* "AllSuccessful" | "AnySuccessful"
          PT,           \* effective pending timeout (0 = disabled)
          FD,           \* effective force-delete timeout (0 = disabled)
          TTL,          \* effective ttlSecondsAfterFinished
          Forbid,       \* forbidTaskForceDeletion
          Foreign,      \* a foreign object occupies the name of attempt 0 of index 0
          MaxTime,      \* clock horizon
          MaxEvq,       \* bound on undelivered events per informer
          MaxFaults, MaxCrash,
          Fresh,        \* passes only begin on up-to-date caches
          KillDelays,   \* set of delays (0 = now) the user may choose for the kill timestamp; {} = never kills
          KillEdits,    \* set of delays (99 = remove the timestamp) the user may move a kill timestamp to that has not yet passed
          UserDeletes, ExtDeletes, NodeDowns,  \* BOOLEAN switches for environment actions
          Invalids,     \* BOOLEAN: the API server may refuse a Pod create for good (Invalid): the Job gets an admission error
          WatchBreaks,  \* BOOLEAN: the Pod watch may break (undelivered Pod events lost, the informer lists again)
          Holds,        \* BOOLEAN: the Job was submitted with another controller's finalizer next to furiko's (released only after deletion)
          Rejects       \* BOOLEAN: the queue controller may refuse the Job before it starts (admission-error annotation)

Idx == 0..(N - 1)
Att == 0..(MaxAtt - 1)
Slots == Idx \X Att

NoPod == [ex |-> FALSE, mine |-> TRUE, ph |-> "P", dl |-> 0, cr |-> 0, ran |-> FALSE, fin |-> 0, uid |-> 0]
NoRef == [ex |-> FALSE, cr |-> 0, run |-> 0, fin |-> 0, res |-> "", lost |-> FALSE, ds |-> ""]
NoRefs == [s \in Slots |-> NoRef]
NoJob == [ex |-> FALSE, rv |-> 0, st |-> 0, kill |-> 0, del |-> FALSE, fz |-> FALSE, hold |-> FALSE, adm |-> FALSE,
          refs |-> NoRefs, kind |-> "", result |-> "", fints |-> 0]
NoPods == [s \in Slots |-> NoPod]

VARIABLES now,
          job, pods,            \* authoritative API state
          jc, pc,               \* informer caches
          jq, pq,               \* undelivered watch events: sequences of Job snapshots / of <<slot, Pod snapshot>>
          wq, timer, retry,     \* work-queue: key ready / AddAfter armed / rate-limited retry pending
          pass,                 \* the reconcile pass in flight
          down,                 \* slots whose kubelet is unresponsive
          faults, crashes, rvc, uidc,
          \* ghosts (history, used by the properties only)
          ever, succ, listed, succRec, edited, udel, ttlAt, ttlLB, doneAt, taint, last

vars == <<now, job, pods, jc, pc, jq, pq, wq, timer, retry, pass, down, faults, crashes, rvc, uidc,
          ever, succ, listed, succRec, edited, udel, ttlAt, ttlLB, doneAt, taint, last>>

Idle == [busy |-> FALSE]

--------------------------------------------------------------------------
\* Status functions (transcribed from the code)

Alive(p) == p.ex /\ p.ph \in {"P", "R"}
MaxOf(S) == IF S = {} THEN 0 ELSE CHOOSE m \in S : \A x \in S : x <= m
RefsOfIdx(refs, i) == {refs[<<i, a>>] : a \in {b \in Att : refs[<<i, b>>].ex}}
IndexStatus(refs, i) ==
    LET ts == {a \in Att : refs[<<i, a>>].ex}
        n == Cardinality(ts)
        nTerm == Cardinality({a \in ts : refs[<<i, a>>].fin # 0})
        nRun == Cardinality({a \in ts : refs[<<i, a>>].fin = 0 /\ refs[<<i, a>>].run # 0})
        sc == \E a \in ts : refs[<<i, a>>].res = "S"
        fl == ~sc /\ nTerm >= MaxAtt
    IN [state |-> IF n = 0 THEN "NotCreated"
                  ELSE IF nTerm = n /\ ~sc /\ ~fl THEN "RetryBackoff"
                  ELSE IF nTerm = n THEN "Terminated"
                  ELSE IF nRun > 0 THEN "Running" ELSE "Starting",
        result |-> IF sc THEN "S" ELSE IF fl THEN "F" ELSE ""]
Count(refs, P(_)) == Cardinality({i \in Idx : P(IndexStatus(refs, i))})
Summary(refs) ==
    LET nS == Count(refs, LAMBDA s : s.result = "S")
        nF == Count(refs, LAMBDA s : s.result = "F")
        sc == IF Strategy = "AllSuccessful" THEN nS >= N ELSE nS > 0
        fl == IF Strategy = "AllSuccessful" THEN nF > 0 ELSE nF >= N
    IN [complete |-> sc \/ fl, successful |-> IF sc THEN "true" ELSE IF fl THEN "false" ELSE "nil"]
Terminated(refs) == Count(refs, LAMBDA s : s.state \in {"NotCreated", "RetryBackoff", "Terminated"})
LatestFin(refs) == MaxOf({refs[s].fin : s \in Slots})

\* GetCondition + the deletion override of UpdateJobStatusFromTaskRefs; returns the three fields the properties need
Condition(j, refs, t) ==
    LET sum == Summary(refs)
        killed == j.kill # 0 /\ j.kill <= t
        lf == LatestFin(refs)
        base ==
            IF j.adm THEN [kind |-> "Finished", result |-> "AdmissionError", fints |-> IF j.kind = "Finished" /\ j.fints # 0 THEN j.fints ELSE t]
            ELSE IF j.st = 0 THEN [kind |-> "Queueing", result |-> "", fints |-> 0]
            ELSE IF killed THEN
                (IF Terminated(refs) >= N THEN [kind |-> "Finished", result |-> "Killed", fints |-> IF lf # 0 THEN lf ELSE j.kill]
                 ELSE [kind |-> "Waiting", result |-> "", fints |-> 0])
            ELSE IF ~sum.complete THEN [kind |-> "Active", result |-> "", fints |-> 0]
            ELSE IF Terminated(refs) < N THEN [kind |-> "Running", result |-> "", fints |-> 0]
            ELSE [kind |-> "Finished", fints |-> lf,
                  result |-> IF j.kill # 0 THEN "Killed" ELSE IF sum.successful = "true" THEN "Success" ELSE "Failed"]
    IN IF j.del /\ base.kind # "Finished" THEN [kind |-> "Finished", result |-> "Killed", fints |-> t] ELSE base

\* GetTaskRef(existing, task): a task object (Pod snapshot p) merged into its ref
RefOf(ex, p) ==
    LET done == p.ph \in {"S", "F"}
        res == IF p.ph = "S" THEN "S" ELSE IF p.ph = "F" THEN "F" ELSE ""
    IN [ex |-> TRUE, cr |-> p.cr,
        run |-> IF p.ran THEN 1 ELSE ex.run,
        fin |-> IF done THEN p.fin ELSE ex.fin,
        res |-> res, lost |-> FALSE,
        ds |-> IF done THEN res ELSE ex.ds]
\* an existing ref whose task is not in the list: lost (finish time = now unless set; status = DeletedStatus if set)
LostRef(r, t) == [r EXCEPT !.fin = IF r.fin = 0 THEN t ELSE r.fin,
                           !.res = IF r.ds # "" THEN r.ds ELSE r.res,
                           !.lost = (r.ds = "")]
\* GenerateTaskRefs(existing, tasks): tp = the pass's snapshots of the tasks it holds (a function on Slots, ex = held)
GenRefs(refs, tp, t) ==
    [s \in Slots |-> IF tp[s].ex THEN RefOf(IF refs[s].ex THEN refs[s] ELSE NoRef, tp[s])
                     ELSE IF refs[s].ex THEN LostRef(refs[s], t) ELSE NoRef]
WithStatus(j, refs, t) == LET c == Condition(j, refs, t) IN [j EXCEPT !.refs = refs, !.kind = c.kind, !.result = c.result, !.fints = c.fints]

\* ComputeMissingIndexesForCreation on the CACHED status refs: <<slot, earliest>> requests in index order
Requests(refs) ==
    LET need(i) == /\ ~\E a \in Att : refs[<<i, a>>].ex /\ (refs[<<i, a>>].fin = 0 \/ refs[<<i, a>>].res = "S")
                   /\ Cardinality({a \in Att : refs[<<i, a>>].ex}) < MaxAtt   \* attempts are recorded gap-free: next = count
        nextA(i) == LET used == {a \in Att : refs[<<i, a>>].ex} IN IF used = {} THEN 0 ELSE MaxOf(used) + 1
        lastFin(i) == MaxOf({refs[<<i, a>>].fin : a \in Att})
    IN [i \in {k \in Idx : need(k) /\ nextA(k) < MaxAtt} |-> [slot |-> <<i, nextA(i)>>, earliest |-> IF lastFin(i) = 0 THEN 0 ELSE lastFin(i) + Delay]]

ParallelKill(refs) == LET s == Summary(refs) IN s.complete /\ (IF Strategy = "AllSuccessful" THEN s.successful = "false" ELSE s.successful = "true")

--------------------------------------------------------------------------
\* API plumbing

EmitJob(j) == jq' = Append(jq, j)
PodEvents(old, new) == [k \in 1..Cardinality({s \in Slots : old[s] # new[s]}) |->
                          LET S == {s \in Slots : old[s] # new[s]}
                              ord == CHOOSE f \in [1..Cardinality(S) -> S] : \A a, b \in 1..Cardinality(S) : a < b => f[a] # f[b] /\ (f[a][1] < f[b][1] \/ (f[a][1] = f[b][1] /\ f[a][2] < f[b][2]))
                          IN <<ord[k], new[ord[k]]>>]
SetPods(new) == pods' = new /\ pq' = pq \o PodEvents(pods, new)
RoomJ == Len(jq) < MaxEvq
RoomP(k) == Len(pq) + k <= MaxEvq

\* ghost maintenance common to every step (evaluated on primed API state)
Mine(ps) == {s \in Slots : ps[s].ex /\ ps[s].mine}
OverInTruth(ps, s) == ~(ps[s].ex /\ ps[s].mine /\ Alive(ps[s]) /\ ps[s].dl = 0)
ExhaustedTruth(ps, ev, sc, i) == i \notin sc /\ Cardinality({s \in ev : s[1] = i /\ OverInTruth(ps, s)}) >= MaxAtt
DecidedTruth(ps, ev, sc) ==
    IF Strategy = "AnySuccessful" THEN sc # {} \/ \A i \in Idx : ExhaustedTruth(ps, ev, sc, i)
    ELSE Idx \subseteq sc \/ \E i \in Idx : ExhaustedTruth(ps, ev, sc, i)
Ghosts ==
    /\ ever' = ever \cup Mine(pods')
    /\ succ' = succ \cup {s[1] : s \in {x \in Mine(pods') : pods'[x].ph = "S"}}
    /\ listed' = listed \cup {s \in Slots : job'.ex /\ job'.refs[s].ex}
    /\ succRec' = succRec \cup {s[1] : s \in {x \in Slots : job'.ex /\ job'.refs[x].ex /\ job'.refs[x].res = "S"}}
    /\ doneAt' = IF doneAt = 0 /\ job'.ex /\ job'.st # 0 /\ (\A s \in Mine(pods') : ~Alive(pods'[s]))
                    /\ (job'.adm \/ (job'.kill # 0 /\ job'.kill <= now') \/ DecidedTruth(pods', ever', succ'))
                 THEN now' ELSE doneAt

--------------------------------------------------------------------------
\* Environment

Tick == /\ now < MaxTime /\ now' = now + 1
        /\ UNCHANGED <<job, pods, jc, pc, jq, pq, wq, timer, retry, pass, down, faults, crashes, rvc, uidc, edited, udel, ttlAt, ttlLB, taint>>
        /\ last' = [a |-> "Tick"] /\ Ghosts

WriteJob(j) == /\ rvc' = rvc + 1 /\ job' = [j EXCEPT !.rv = rvc + 1] /\ EmitJob(job')

Start == /\ job.ex /\ job.st = 0 /\ ~job.del /\ ~job.adm /\ RoomJ
         /\ WriteJob([job EXCEPT !.st = now])
         /\ UNCHANGED <<now, pods, jc, pc, pq, wq, timer, retry, pass, down, faults, crashes, uidc, edited, udel, ttlAt, ttlLB, taint>>
         /\ last' = [a |-> "Start"] /\ Ghosts

\* the queue controller's RejectJob (concurrency policy Forbid): the Job never starts, its condition is Finished / AdmissionError
Reject == /\ Rejects /\ job.ex /\ job.st = 0 /\ ~job.adm /\ ~job.del /\ RoomJ
          /\ WriteJob([job EXCEPT !.adm = TRUE])
          /\ UNCHANGED <<now, pods, jc, pc, pq, wq, timer, retry, pass, down, faults, crashes, uidc, edited, udel, ttlAt, ttlLB, taint>>
          /\ last' = [a |-> "Reject"] /\ Ghosts

UserKill(d) == /\ job.ex /\ job.kill = 0 /\ RoomJ /\ now + d <= MaxTime
               /\ WriteJob([job EXCEPT !.kill = now + d])
               /\ edited' = (edited \/ job.kind = "Finished")
               /\ UNCHANGED <<now, pods, jc, pc, pq, wq, timer, retry, pass, down, faults, crashes, uidc, udel, ttlAt, ttlLB, taint>>
               /\ last' = [a |-> "UserKill", d |-> d] /\ Ghosts

\* the user edits a kill timestamp that is still in the future (moves it, or removes it with d = 99). Admission
\* (ValidateKillTimestampUpdate) refuses any change once the timestamp has passed, so there is no such action then; an
\* edit at the very instant of the timestamp is not modelled (discrete clock: the validator compares strictly, the
\* controller inclusively, a window of measure zero on a real clock).
\* (a removed timestamp can be set again: the resourceVersion counter bounds the number of such rounds)
RekillRvBound == 8
UserRekill(d) == /\ job.ex /\ job.kill # 0 /\ job.kill > now /\ RoomJ /\ (d = 99 \/ now + d <= MaxTime) /\ rvc < RekillRvBound
                 /\ LET k == IF d = 99 THEN 0 ELSE now + d IN
                    /\ k # job.kill
                    /\ WriteJob([job EXCEPT !.kill = k])
                 /\ edited' = (edited \/ job.kind = "Finished")
                 /\ UNCHANGED <<now, pods, jc, pc, pq, wq, timer, retry, pass, down, faults, crashes, uidc, udel, ttlAt, ttlLB, taint>>
                 /\ last' = [a |-> "UserRekill", d |-> d] /\ Ghosts

\* DELETE of a Job: finalizer present => deletionTimestamp; otherwise the object is removed
ApiDeleteJob == IF job.fz \/ job.hold THEN WriteJob([job EXCEPT !.del = TRUE]) ELSE (rvc' = rvc + 1 /\ job' = NoJob /\ EmitJob(NoJob))
\* the other controller releases its finalizer once the Job is being deleted; the object goes when no finalizer is left
ReleaseHold == /\ job.ex /\ job.hold /\ job.del /\ RoomJ
               /\ IF job.fz THEN WriteJob([job EXCEPT !.hold = FALSE]) ELSE (rvc' = rvc + 1 /\ job' = NoJob /\ EmitJob(NoJob))
               /\ UNCHANGED <<now, pods, jc, pc, pq, wq, timer, retry, pass, down, faults, crashes, uidc, edited, udel, ttlAt, ttlLB, taint>>
               /\ last' = [a |-> "ReleaseHold"] /\ Ghosts
UserDelete == /\ UserDeletes /\ job.ex /\ ~job.del /\ RoomJ
              /\ ApiDeleteJob
              /\ edited' = (edited \/ job.kind = "Finished") /\ udel' = TRUE
              /\ UNCHANGED <<now, pods, jc, pc, pq, wq, timer, retry, pass, down, faults, crashes, uidc, ttlAt, ttlLB, taint>>
              /\ last' = [a |-> "UserDelete"] /\ Ghosts

Kubelet(s, ph) ==
    /\ pods[s].ex /\ pods[s].mine /\ s \notin down /\ RoomP(1)
    /\ \/ ph = "R" /\ pods[s].ph = "P"
       \/ ph \in {"S", "F"} /\ pods[s].ph \in {"P", "R"}
    /\ SetPods([pods EXCEPT ![s].ph = ph, ![s].ran = TRUE, ![s].fin = IF ph = "R" THEN 0 ELSE now])
    /\ UNCHANGED <<now, job, jc, pc, jq, wq, timer, retry, pass, down, faults, crashes, rvc, uidc, edited, udel, ttlAt, ttlLB, taint>>
    /\ last' = [a |-> "Kubelet", i |-> s[1], r |-> s[2], x |-> ph] /\ Ghosts

KubeletGone(s) ==
    /\ pods[s].ex /\ pods[s].dl # 0 /\ s \notin down /\ RoomP(1)
    /\ SetPods([pods EXCEPT ![s] = NoPod])
    /\ UNCHANGED <<now, job, jc, pc, jq, wq, timer, retry, pass, down, faults, crashes, rvc, uidc, edited, udel, ttlAt, ttlLB, taint>>
    /\ last' = [a |-> "KubeletGone", i |-> s[1], r |-> s[2]] /\ Ghosts

NodeDown(s) ==
    /\ NodeDowns /\ pods[s].ex /\ pods[s].mine /\ Alive(pods[s]) /\ s \notin down
    /\ down' = down \cup {s}
    /\ UNCHANGED <<now, job, pods, jc, pc, jq, pq, wq, timer, retry, pass, faults, crashes, rvc, uidc, edited, udel, ttlAt, ttlLB, taint>>
    /\ last' = [a |-> "NodeDown", i |-> s[1], r |-> s[2]] /\ Ghosts

ExternalDelete(s) ==
    /\ ExtDeletes /\ pods[s].ex /\ RoomP(1)
    /\ SetPods([pods EXCEPT ![s] = NoPod])
    /\ UNCHANGED <<now, job, jc, pc, jq, wq, timer, retry, pass, down, faults, crashes, rvc, uidc, edited, udel, ttlAt, ttlLB, taint>>
    /\ last' = [a |-> "ExternalDelete", i |-> s[1], r |-> s[2]] /\ Ghosts

\* informer deliveries: the Job handler enqueues the key on every event; the Pod handler enqueues the owning Job's key
DeliverJob ==
    /\ jq # <<>>
    /\ jc' = Head(jq) /\ jq' = Tail(jq) /\ wq' = TRUE
    /\ UNCHANGED <<now, job, pods, pc, pq, timer, retry, pass, down, faults, crashes, rvc, uidc, edited, udel, ttlAt, ttlLB, taint>>
    /\ last' = [a |-> "DeliverJob"] /\ Ghosts
DeliverPod ==
    /\ pq # <<>>
    /\ pc' = [pc EXCEPT ![Head(pq)[1]] = Head(pq)[2]] /\ pq' = Tail(pq)
    /\ wq' = (wq \/ Head(pq)[2].mine \/ pc[Head(pq)[1]].mine)
    /\ UNCHANGED <<now, job, pods, jc, jq, timer, retry, pass, down, faults, crashes, rvc, uidc, edited, udel, ttlAt, ttlLB, taint>>
    /\ last' = [a |-> "DeliverPod"] /\ Ghosts
\* the Pod watch breaks and the informer lists again: the cache jumps to the present; the handlers get an update for every
\* listed Pod and a tombstone for every Pod that is gone, and enqueue the Job for each one that it owns
PodRelist ==
    /\ WatchBreaks /\ pq # <<>>
    /\ pc' = pods /\ pq' = <<>>
    /\ wq' = (wq \/ \E s \in Slots : (pods[s].ex /\ pods[s].mine) \/ (pc[s].ex /\ pc[s].mine))
    /\ UNCHANGED <<now, job, pods, jc, jq, timer, retry, pass, down, faults, crashes, rvc, uidc, edited, udel, ttlAt, ttlLB, taint>>
    /\ last' = [a |-> "PodWatchBreak"] /\ Ghosts
TimerFire == /\ timer /\ timer' = FALSE /\ wq' = TRUE
             /\ UNCHANGED <<now, job, pods, jc, pc, jq, pq, retry, pass, down, faults, crashes, rvc, uidc, edited, udel, ttlAt, ttlLB, taint>>
             /\ last' = [a |-> "TimerFire"] /\ Ghosts
RetryFire == /\ retry /\ retry' = FALSE /\ wq' = TRUE
             /\ UNCHANGED <<now, job, pods, jc, pc, jq, pq, timer, pass, down, faults, crashes, rvc, uidc, edited, udel, ttlAt, ttlLB, taint>>
             /\ last' = [a |-> "RetryFire"] /\ Ghosts

--------------------------------------------------------------------------
\* The reconcile pass.  ctx = [j: the Job being built, base: the cached Job it started from, tp: task snapshots held,
\*   reqs: remaining create requests (sequence of slots), arm: a deferred re-sync has to be armed,
\*   dels/fdels: graceful / forced Pod deletes issued in the segment just executed, err: an error was returned by sync]

\* everything after the creation loop, up to the next gated call.  `lc` is the Pod cache at this instant.
PendingReap(j, tp, t) == {s \in Slots : tp[s].ex /\ PT > 0 /\ j.refs[s].fin = 0 /\ j.refs[s].run = 0 /\ t >= j.refs[s].cr + PT /\ tp[s].dl = 0}
PendingWait(j, tp, t) == \E s \in Slots : tp[s].ex /\ PT > 0 /\ j.refs[s].fin = 0 /\ j.refs[s].run = 0 /\ t < j.refs[s].cr + PT
MarkDs(refs, S, always) == [s \in Slots |-> IF s \in S /\ (always \/ refs[s].ds = "") THEN [refs[s] EXCEPT !.ds = "K"] ELSE refs[s]]
ShouldKill(j, t) == (j.kill # 0 /\ j.kill <= t) \/ ParallelKill(j.refs)
KillSet(j, tp, t) == IF ShouldKill(j, t) THEN {s \in Slots : tp[s].ex /\ ~(tp[s].ph \in {"S", "F"}) /\ tp[s].dl = 0} ELSE {}
ForceSet(tp, t) == IF FD > 0 /\ ~Forbid THEN {s \in Slots : tp[s].ex /\ tp[s].dl # 0 /\ t >= tp[s].dl + FD} ELSE {}
ForceWait(tp, t) == FD > 0 /\ ~Forbid /\ \E s \in Slots : tp[s].ex /\ tp[s].dl # 0 /\ t < tp[s].dl + FD

\* syncJobTasks after task creation: returns [j, dels, fdels, arm]
PostCreate(j0, tp, t) ==
    LET j1 == WithStatus(j0, GenRefs(j0.refs, tp, t), t)
        reap == PendingReap(j1, tp, t)
        j2 == [j1 EXCEPT !.refs = MarkDs(j1.refs, reap, TRUE)]
        kills == KillSet(j2, tp, t)
        j3 == [j2 EXCEPT !.refs = MarkDs(j2.refs, kills, TRUE)]
        force == ForceSet(tp, t)
        j4 == WithStatus(j3, GenRefs(MarkDs(j3.refs, force, FALSE), tp, t), t)
    IN [j |-> j4, dels |-> reap \cup kills, fdels |-> force,
        arm |-> PendingWait(j1, tp, t) \/ ForceWait(tp, t) \/ (j0.kill # 0 /\ j0.kill > t)]

\* sync() after syncJobTasks: TTL and finalizer; returns the ctx parked at the next gated call (or finished)
AfterTasks(base, r, lc, t, armed) ==
    LET j1 == WithStatus(r.j, r.j.refs, t)
        ttlDue == j1.kind = "Finished" /\ ~j1.del /\ t >= j1.fints + TTL
        ttlArm == j1.kind = "Finished" /\ ~j1.del /\ t < j1.fints + TTL
    IN [busy |-> TRUE, base |-> base, j |-> j1, dels |-> r.dels, fdels |-> r.fdels, arm |-> armed \/ r.arm \/ ttlArm,
        pc |-> IF ttlDue THEN "deljob" ELSE "finalize", reqs |-> <<>>, tp |-> NoPods, err |-> FALSE, lc |-> lc]

\* handleFinishFinalizer (reads the Pod cache again) then the two writes
Finalize(c, lc, t) ==
    LET j == c.j
        held == {s \in Slots : j.refs[s].ex /\ lc[s].ex}
        tp == [s \in Slots |-> IF s \in held THEN lc[s] ELSE NoPod]
    IN IF ~(j.del /\ j.fz) THEN [c EXCEPT !.pc = "write"]
       ELSE IF held # {} THEN
            [c EXCEPT !.j = WithStatus(j, GenRefs(MarkDs(j.refs, held, FALSE), tp, t), t),
                      !.dels = c.dels \cup {s \in held : lc[s].dl = 0}, !.pc = "write"]
       ELSE [c EXCEPT !.j = [WithStatus(j, GenRefs(j.refs, tp, t), t) EXCEPT !.fz = FALSE], !.pc = "write"]

MetaChanged(c) == c.j.adm # c.base.adm \/ c.j.fz # c.base.fz
StatusView(j) == [refs |-> j.refs, kind |-> j.kind, result |-> j.result, fints |-> j.fints]
StatusChanged(c) == StatusView(c.j) # StatusView(c.base)
\* next gated call of a pass that reached the write stage
WriteStage(c) == IF MetaChanged(c) THEN [c EXCEPT !.pc = "updjob"]
                 ELSE IF StatusChanged(c) THEN [c EXCEPT !.pc = "updstatus"]
                 ELSE [c EXCEPT !.pc = "end"]

\* issue the ungated Pod deletes of the segment and finish bookkeeping
ApplyDeletes(ps, dels, fdels, t) ==
    [s \in Slots |-> IF s \in fdels /\ ps[s].ex THEN NoPod
                     ELSE IF s \in dels /\ ps[s].ex /\ ps[s].dl = 0 THEN [ps[s] EXCEPT !.dl = t]
                     ELSE ps[s]]

\* run a ctx forward through the non-gated stages
RECURSIVE Settle(_, _, _)
Settle(c, lc, t) ==
    IF c.pc = "finalize" THEN Settle(Finalize(c, lc, t), lc, t)
    ELSE IF c.pc = "write" THEN WriteStage(c)
    ELSE c

\* the creation stage: canCreateTask / completion check / requests
CanCreate(j) == j.kill = 0 /\ ~j.adm
AdoptAll(tp, lc) == [s \in Slots |-> IF tp[s].ex THEN tp[s] ELSE IF lc[s].ex /\ lc[s].mine THEN lc[s] ELSE NoPod]
SeqOf(f) == LET D == DOMAIN f
                ord == CHOOSE g \in [1..Cardinality(D) -> D] : \A a, b \in 1..Cardinality(D) : a < b => g[a] < g[b]
            IN [k \in 1..Cardinality(D) |-> f[ord[k]]]

BeginTasks(base, lc, t) ==
    LET tp0 == [s \in Slots |-> IF base.refs[s].ex /\ lc[s].ex THEN lc[s] ELSE NoPod]
        cur == GenRefs(base.refs, tp0, t)
        reqsAll == SeqOf(Requests(base.refs))
        due == SelectSeq(reqsAll, LAMBDA q : q.earliest <= t)
        later == \E k \in 1..Len(reqsAll) : reqsAll[k].earliest # 0
    IN IF ~CanCreate(base) \/ Summary(cur).complete
       THEN Settle(AfterTasks(base, PostCreate(base, AdoptAll(tp0, lc), t), lc, t, FALSE), lc, t)
       ELSE IF due = <<>>
       THEN Settle(AfterTasks(base, PostCreate(WithStatus(base, cur, t), tp0, t), lc, t, later), lc, t)
       ELSE [busy |-> TRUE, base |-> base, j |-> base, tp |-> tp0, reqs |-> [k \in 1..Len(due) |-> due[k].slot], arm |-> later,
             dels |-> {}, fdels |-> {}, pc |-> "create", err |-> FALSE, lc |-> lc]

SyncBegin ==
    /\ ~pass.busy /\ wq
    /\ Fresh => (jq = <<>> /\ pq = <<>>)
    /\ wq' = FALSE
    /\ LET stale == jc.ex /\ job.ex /\ {<<s, jc.refs[s].ex, jc.refs[s].fin # 0, jc.refs[s].res>> : s \in Slots} # {<<s, job.refs[s].ex, job.refs[s].fin # 0, job.refs[s].res>> : s \in Slots}
           skew == \E s \in Mine(pods) : ~(pc[s].ex /\ pc[s].uid = pods[s].uid)
           c0 == IF ~jc.ex THEN [busy |-> TRUE, pc |-> "end", dels |-> {}, fdels |-> {}, arm |-> FALSE, err |-> FALSE, base |-> jc, j |-> jc, tp |-> NoPods, reqs |-> <<>>, lc |-> pc]
                 ELSE IF jc.st # 0 /\ ~jc.del THEN BeginTasks(jc, pc, now)
                 ELSE Settle(AfterTasks(jc, [j |-> jc, dels |-> {}, fdels |-> {}, arm |-> FALSE], pc, now, FALSE), pc, now)
           c == [c0 EXCEPT !.lc = [now0 |-> now, j |-> jc, p |-> pc, stale |-> stale, skew |-> skew]]
           np == ApplyDeletes(pods, c.dels, c.fdels, now)
           acted == np # pods
       IN /\ SetPods(np)
          /\ pass' = IF c.pc = "end" THEN Idle ELSE [c EXCEPT !.dels = {}, !.fdels = {}]
          /\ timer' = (timer \/ (c.pc = "end" /\ c.arm))
          /\ taint' = IF taint # "" THEN taint ELSE IF stale /\ acted THEN "jobcache-stale" ELSE IF skew /\ acted THEN "podcache-behind" ELSE ""
          /\ last' = [a |-> "SyncBegin", dels |-> c.dels, fdels |-> c.fdels, view |-> c.lc]
    /\ UNCHANGED <<now, job, jc, pc, jq, retry, down, faults, crashes, rvc, uidc, edited, udel, ttlAt, ttlLB>>
    /\ Ghosts

\* one gated call.  f \in {"ok", "error", "conflict"}: injected fault (no effect, error returned)
EndPass(c, failed) ==
    /\ pass' = Idle
    /\ retry' = (retry \/ failed)
    /\ timer' = (timer \/ c.arm)

StepCreate(f) ==
    /\ pass.busy /\ pass.pc = "create"
    /\ LET s == Head(pass.reqs)
           view == pass.lc
           ok == f = "ok" /\ ~pods[s].ex
           refused == f = "invalid"      \* not retryable: createTask's error is an AdmissionRefused error, the pass marks the Job and goes on
           exists == f = "ok" /\ pods[s].ex
           newPod == [ex |-> TRUE, mine |-> TRUE, ph |-> "P", dl |-> 0, cr |-> now, ran |-> FALSE, fin |-> 0, uid |-> uidc + 1]
           adoptable == exists /\ pc[s].ex /\ pc[s].mine
           foreign == exists /\ pc[s].ex /\ ~pc[s].mine
           \* create failed, or AlreadyExists but the lister does not have the object yet: sync returns an error, nothing is written
           abort == f \notin {"ok", "invalid"} \/ (exists /\ ~pc[s].ex)
           tp1 == IF ok THEN [pass.tp EXCEPT ![s] = newPod] ELSE IF adoptable THEN [pass.tp EXCEPT ![s] = pc[s]] ELSE pass.tp
           j1 == IF foreign \/ refused THEN [pass.j EXCEPT !.adm = TRUE] ELSE pass.j
           rest == Tail(pass.reqs)
           c1 == IF rest # <<>> THEN [pass EXCEPT !.tp = tp1, !.j = j1, !.reqs = rest]
                 ELSE LET r == PostCreate(WithStatus(j1, GenRefs(j1.refs, tp1, now), now), tp1, now)
                      IN [Settle(AfterTasks(pass.base, r, pc, now, pass.arm), pc, now) EXCEPT !.lc = view]
           p1 == IF ok THEN [pods EXCEPT ![s] = newPod] ELSE pods
           np == IF abort THEN p1 ELSE ApplyDeletes(p1, c1.dels, c1.fdels, now)
       IN /\ ok => RoomP(1)
          /\ uidc' = IF ok THEN uidc + 1 ELSE uidc
          /\ SetPods(np)
          /\ IF abort THEN EndPass(pass, TRUE)
             ELSE IF c1.pc = "end" THEN EndPass(c1, FALSE)
             ELSE pass' = [c1 EXCEPT !.dels = {}, !.fdels = {}] /\ UNCHANGED <<retry, timer>>
          /\ faults' = IF f = "ok" THEN faults ELSE faults + 1
          /\ taint' = IF taint # "" THEN taint ELSE IF view.stale /\ np # pods THEN "jobcache-stale" ELSE IF view.skew /\ np # pods THEN "podcache-behind" ELSE ""
          /\ last' = [a |-> "Step", op |-> "create", i |-> s[1], r |-> s[2], f |-> f, created |-> ok, dels |-> IF abort THEN {} ELSE c1.dels, fdels |-> IF abort THEN {} ELSE c1.fdels, view |-> view]
    /\ UNCHANGED <<now, job, jc, pc, jq, wq, down, crashes, rvc, edited, udel, ttlAt, ttlLB>>
    /\ Ghosts

StepDeleteJob(f) ==
    /\ pass.busy /\ pass.pc = "deljob" /\ RoomJ
    /\ LET view == pass.lc
           ok == f = "ok"
           c1 == [Settle([pass EXCEPT !.pc = "finalize", !.err = ~ok], pc, now) EXCEPT !.lc = view]
           np == ApplyDeletes(pods, c1.dels, c1.fdels, now)
       IN /\ IF ok /\ job.ex THEN ApiDeleteJob ELSE UNCHANGED <<job, jq, rvc>>
          /\ ttlAt' = IF ok /\ job.ex /\ ttlAt = 0 THEN now ELSE ttlAt
          /\ ttlLB' = IF ok /\ job.ex /\ ttlAt = 0
                      THEN MaxOf({pods[s].fin : s \in {x \in ever : x \in listed \/ pods[x].ex}} \cup {job.refs[s].fin : s \in Slots} \cup {view.p[s].fin : s \in Slots}) ELSE ttlLB
          /\ SetPods(np)
          /\ IF c1.pc = "end" THEN EndPass(c1, c1.err) ELSE pass' = [c1 EXCEPT !.dels = {}, !.fdels = {}] /\ UNCHANGED <<retry, timer>>
          /\ faults' = IF ok THEN faults ELSE faults + 1
          /\ taint' = IF taint # "" THEN taint ELSE IF view.stale /\ ok THEN "jobcache-stale" ELSE IF view.skew /\ (ok \/ np # pods) THEN "podcache-behind" ELSE ""
          /\ last' = [a |-> "Step", op |-> "deljob", f |-> f, dels |-> c1.dels, fdels |-> c1.fdels, view |-> view]
    /\ UNCHANGED <<now, jc, pc, wq, down, crashes, uidc, edited, udel>>
    /\ Ghosts

\* Update (metadata: annotation / finalizers) and UpdateStatus carry the cached resourceVersion: stale => Conflict
StepUpdateJob(f) ==
    /\ pass.busy /\ pass.pc = "updjob" /\ RoomJ
    /\ LET view == pass.lc
           ok == f = "ok" /\ job.ex /\ job.rv = pass.base.rv
           nj == [job EXCEPT !.adm = pass.j.adm, !.fz = pass.j.fz]
           gone == ok /\ nj.del /\ ~nj.fz /\ ~nj.hold
           c1 == IF StatusChanged(pass) THEN [pass EXCEPT !.pc = "updstatus"] ELSE [pass EXCEPT !.pc = "end"]
       IN /\ IF ~ok THEN UNCHANGED <<job, jq, rvc>>
             ELSE IF gone THEN rvc' = rvc + 1 /\ job' = NoJob /\ EmitJob(NoJob)
             ELSE WriteJob(nj)
          /\ IF ~ok THEN EndPass(pass, TRUE)
             ELSE IF c1.pc = "end" THEN EndPass(c1, c1.err)
             ELSE pass' = c1 /\ UNCHANGED <<retry, timer>>   \* the status write that follows still carries the cached resourceVersion: it conflicts and the pass is retried
          /\ faults' = IF f = "ok" THEN faults ELSE faults + 1
          /\ taint' = IF taint # "" THEN taint ELSE IF view.stale /\ ok THEN "jobcache-stale" ELSE IF view.skew /\ ok THEN "podcache-behind" ELSE ""
          /\ last' = [a |-> "Step", op |-> "updjob", f |-> f, ok |-> ok, dels |-> {}, fdels |-> {}, view |-> view]
    /\ UNCHANGED <<now, pods, jc, pc, pq, wq, down, crashes, uidc, edited, udel, ttlAt, ttlLB>>
    /\ Ghosts

StepUpdateStatus(f) ==
    /\ pass.busy /\ pass.pc = "updstatus" /\ RoomJ
    /\ LET view == pass.lc
           ok == f = "ok" /\ job.ex /\ job.rv = pass.base.rv
           nj == [job EXCEPT !.refs = pass.j.refs, !.kind = pass.j.kind, !.result = pass.j.result, !.fints = pass.j.fints]
       IN /\ IF ok THEN WriteJob(nj) ELSE UNCHANGED <<job, jq, rvc>>
          /\ EndPass(pass, ~ok \/ pass.err)
          /\ faults' = IF f = "ok" THEN faults ELSE faults + 1
          /\ taint' = IF taint # "" THEN taint ELSE IF view.stale /\ ok THEN "jobcache-stale" ELSE IF view.skew /\ ok THEN "podcache-behind" ELSE ""
          /\ last' = [a |-> "Step", op |-> "updstatus", f |-> f, ok |-> ok, dels |-> {}, fdels |-> {}, view |-> view]
    /\ UNCHANGED <<now, pods, jc, pc, pq, wq, down, crashes, uidc, edited, udel, ttlAt, ttlLB>>
    /\ Ghosts

Step(f) == /\ (f # "ok" => faults < MaxFaults)
           /\ (f = "invalid" => (Invalids /\ pass.busy /\ pass.pc = "create"))
           /\ (StepCreate(f) \/ StepDeleteJob(f) \/ StepUpdateJob(f) \/ StepUpdateStatus(f))

\* process crash + restart: the pass in flight is lost, queues and caches are rebuilt from the API (relist => key enqueued)
CrashRestart ==
    /\ crashes < MaxCrash
    /\ crashes' = crashes + 1
    /\ pass' = Idle /\ jc' = job /\ pc' = pods /\ jq' = <<>> /\ pq' = <<>>
    /\ wq' = job.ex /\ timer' = FALSE /\ retry' = FALSE
    /\ UNCHANGED <<now, job, pods, down, faults, rvc, uidc, edited, udel, ttlAt, ttlLB, taint>>
    /\ last' = [a |-> "CrashRestart"] /\ Ghosts

--------------------------------------------------------------------------
InitJob == [NoJob EXCEPT !.ex = TRUE, !.rv = 1, !.fz = TRUE, !.hold = Holds]
InitPods == IF Foreign THEN [NoPods EXCEPT ![<<0, 0>>] = [NoPod EXCEPT !.ex = TRUE, !.mine = FALSE, !.cr = 1, !.uid = 1]] ELSE NoPods
Init ==
    /\ now = 1 /\ job = InitJob /\ pods = InitPods /\ jc = InitJob /\ pc = InitPods /\ jq = <<>> /\ pq = <<>>
    /\ wq = TRUE /\ timer = FALSE /\ retry = FALSE /\ pass = Idle /\ down = {} /\ faults = 0 /\ crashes = 0 /\ rvc = 1 /\ uidc = 1
    /\ ever = {} /\ succ = {} /\ listed = {} /\ succRec = {} /\ edited = FALSE /\ udel = FALSE /\ ttlAt = 0 /\ ttlLB = 0 /\ doneAt = 0
    /\ taint = "" /\ last = [a |-> "Init"]

Env == \/ Tick \/ Start \/ Reject \/ UserDelete \/ ReleaseHold \/ DeliverJob \/ DeliverPod \/ PodRelist \/ TimerFire \/ RetryFire \/ CrashRestart
       \/ \E d \in KillDelays : UserKill(d)
       \/ \E d \in KillEdits : UserRekill(d)
       \/ \E s \in Slots : Kubelet(s, "R") \/ Kubelet(s, "S") \/ Kubelet(s, "F") \/ KubeletGone(s) \/ NodeDown(s) \/ ExternalDelete(s)
Next == Env \/ SyncBegin \/ \E f \in {"ok", "error", "conflict", "invalid"} : Step(f)
Spec == Init /\ [][Next]_vars

--------------------------------------------------------------------------
\* Properties (the formulas of JobLifeProps, stated on this module's state; Ok(P) = P \/ taint # "")
Ok(P) == P \/ taint' # ""
OkS(P) == P \/ taint # ""
View == IF "view" \in DOMAIN last THEN last.view ELSE [now0 |-> 0, j |-> NoJob, p |-> NoPods, stale |-> FALSE, skew |-> FALSE]
NewPods == {s \in Slots : pods'[s].ex /\ pods'[s].mine /\ ~pods[s].ex}
IsStep == last'.a \in {"SyncBegin", "Step"}
SuccRecJ(j, i) == \E a \in Att : j.refs[<<i, a>>].ex /\ j.refs[<<i, a>>].res = "S"
ExhRecJ(j, i) == Cardinality({a \in Att : j.refs[<<i, a>>].ex /\ j.refs[<<i, a>>].fin # 0}) >= MaxAtt /\ ~SuccRecJ(j, i)
DecidedRec(j) == IF Strategy = "AnySuccessful" THEN (\E i \in Idx : SuccRecJ(j, i)) \/ \A i \in Idx : ExhRecJ(j, i)
                 ELSE (\A i \in Idx : SuccRecJ(j, i)) \/ \E i \in Idx : ExhRecJ(j, i)

C08_OneLive == OkS(\A i \in Idx : Cardinality({s \in Mine(pods) : s[1] = i /\ Alive(pods[s])}) <= 1)
C08_Order == [][Ok(\A s \in NewPods : LET known == listed \cup Mine(pods) IN
                    /\ s[2] = Cardinality({k \in known : k[1] = s[1]}) /\ s \notin known)]_vars
C08_Delay == [][Ok(\A s \in NewPods : s[2] > 0 => LET v == last'.view IN
                    \A a \in Att : v.j.refs[<<s[1], a>>].ex => (v.j.refs[<<s[1], a>>].fin # 0 /\ now' >= v.j.refs[<<s[1], a>>].fin + Delay))]_vars
C08_Gates == [][Ok(\A s \in NewPods : LET v == last'.view IN
                    /\ v.j.ex /\ v.j.st # 0 /\ v.j.kill = 0 /\ ~v.j.adm /\ ~v.j.del
                    /\ ~SuccRecJ(v.j, s[1]) /\ ~DecidedRec(v.j) /\ s[1] \notin succRec)]_vars
C09_Keep == [][Ok((job.ex /\ job'.ex) => \A s \in Slots : job.refs[s].ex =>
                    /\ job'.refs[s].ex /\ (job.refs[s].run # 0 => job'.refs[s].run # 0) /\ (job.refs[s].fin # 0 => job'.refs[s].fin # 0)
                    /\ ((job.refs[s].res = "S" /\ ~job'.del) => job'.refs[s].res = "S"))]_vars
C09_NotLost == OkS(job.ex => \A s \in Slots : (job.refs[s].ex /\ pods[s].ex /\ pods[s].mine /\ Alive(pods[s]) /\ pods[s].dl = 0) => (job.refs[s].fin = 0 /\ ~job.refs[s].lost))
C09_NoForeignAdopt == OkS(job.ex => \A s \in Slots : (job.refs[s].ex /\ pods[s].ex) => pods[s].mine)
C10_SuccOnly == OkS((job.ex /\ job.result = "Success") => (IF Strategy = "AllSuccessful" THEN Idx \subseteq succ ELSE succ # {}))
C10_FailOnly == OkS((job.ex /\ job.result = "Failed") =>
                    (IF Strategy = "AllSuccessful" THEN \E i \in Idx : ExhaustedTruth(pods, ever, succRec, i) ELSE \A i \in Idx : ExhaustedTruth(pods, ever, succRec, i)))
\* (a Job whose task was refused for good is reported finished / AdmissionError at once although its other tasks are
\*  alive: known finding KF-JL-admission-error-live-tasks; the design has it, hence the exemption here)
C10_NoLiveAtFinish == [][Ok((job'.ex /\ job'.kind = "Finished" /\ job.kind # "Finished" /\ ~job'.del /\ job'.result # "AdmissionError")
                             => \A s \in Mine(pods') : ~Alive(pods'[s]))]_vars
C11_Monotone == [][Ok((job.ex /\ job'.ex) =>
                    /\ (job.st # 0 => job'.st = job.st)
                    /\ (job.kind = "Finished" => job'.kind = "Finished")
                    /\ ((job.kind = "Finished" /\ ~edited' /\ ~job'.del) => (job'.result = job.result /\ job'.fints = job.fints))
                    /\ Cardinality({s \in Slots : job'.refs[s].ex}) >= Cardinality({s \in Slots : job.refs[s].ex}))]_vars
C12_DeleteJustified == [][Ok(IsStep => \A s \in last'.dels : (pods[s].ex /\ pods[s].mine /\ Alive(pods[s]) /\ pods[s].dl = 0) => LET v == last'.view IN
                    \/ (v.j.kill # 0 /\ v.j.kill <= now')
                    \/ (PT > 0 /\ v.p[s].ex /\ ~v.p[s].ran /\ now' >= v.p[s].cr + PT)
                    \/ (PT > 0 /\ ~v.p[s].ex /\ now' >= pods[s].cr + PT)
                    \/ v.j.del
                    \/ DecidedTruth(pods', ever', succ')
                    \/ DecidedRec(job'))]_vars
\* a kill timestamp that has passed is never changed or removed
C12_KillSticky == [][(job.ex /\ job'.ex /\ job.kill # 0 /\ job.kill <= now) => job'.kill = job.kill]_vars
C12_ForceGate == [][Ok(IsStep => \A s \in last'.fdels : (pods[s].ex /\ pods[s].mine) => LET v == last'.view IN
                    /\ FD > 0 /\ ~Forbid
                    /\ ((pods[s].dl # 0 /\ now' >= pods[s].dl + FD) \/ (v.p[s].ex /\ v.p[s].dl # 0 /\ now' >= v.p[s].dl + FD)))]_vars
C13_Order == [][Ok((job.ex /\ ~job'.ex) => \A s \in Slots : job.refs[s].ex => ~(pods'[s].ex /\ pods'[s].mine))]_vars
C13_TTLNotEarly == [][Ok((job.ex /\ ~job'.ex /\ ttlAt # 0 /\ ~udel) =>
                    \/ (job.kind = "Finished" /\ ttlAt >= job.fints + TTL)
                    \/ (doneAt # 0 /\ ttlAt >= doneAt + TTL)
                    \/ (doneAt # 0 /\ ttlLB # 0 /\ ttlAt >= ttlLB + TTL)
                    \/ (doneAt # 0 /\ ttlLB = 0 /\ job.kill # 0 /\ ttlAt >= job.kill + TTL))]_vars

\* quiescence: nothing in flight, nothing undelivered, nothing queued, and every armed deferred re-sync whose time
\* could have come has fired (the spec does not interpret AddAfter durations: "timer" may fire at any time)
Quiescent == ~pass.busy /\ ~wq /\ ~retry /\ ~timer /\ jq = <<>> /\ pq = <<>> /\ \A s \in Slots : (pods[s].ex /\ pods[s].dl # 0) => s \in down
Stuck == \E s \in Mine(pods) : Alive(pods[s]) /\ s \in down /\ (Forbid \/ FD = 0)
G_Kill == OkS((Quiescent /\ job.ex /\ job.st # 0 /\ ~job.del /\ job.kill # 0 /\ job.kill <= now /\ now < MaxTime) =>
                 ((\A s \in Mine(pods) : Alive(pods[s]) => (s \in down /\ (Forbid \/ FD = 0))) /\ ((\A s \in Mine(pods) : ~Alive(pods[s])) => job.result \in {"Killed", "AdmissionError"})))
G_Reaches == OkS((Quiescent /\ job.ex /\ job.st # 0 /\ ~job.del /\ ~job.adm /\ job.kill = 0 /\ DecidedRec(job) /\ ~Stuck) => job.kind = "Finished")
G_Listed == OkS((Quiescent /\ job.ex /\ ~job.del) => \A s \in Mine(pods) : job.refs[s].ex)
G_Deleted == OkS((Quiescent /\ job.ex /\ job.del /\ ~job.hold) => \E s \in Mine(pods) : s \in down)
\* while the Job is being deleted furiko's finalizer is only given up when none of the tasks it recorded is left
G_FinalizerHeld == OkS((job.ex /\ job.del /\ ~job.fz) => \A s \in Slots : job.refs[s].ex => ~(pods[s].ex /\ pods[s].mine))
G_Foreign == OkS((Quiescent /\ Foreign /\ pods[<<0, 0>>].ex /\ ~pods[<<0, 0>>].mine /\ job.ex /\ job.st # 0 /\ ~job.del /\ job.kill = 0) => job.result = "AdmissionError")

TypeOK == /\ now \in 1..MaxTime /\ faults \in 0..MaxFaults /\ crashes \in 0..MaxCrash
          /\ Len(jq) <= MaxEvq /\ Len(pq) <= MaxEvq + 2 * Cardinality(Slots)
====
