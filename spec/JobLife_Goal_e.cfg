\* one index, user deletes the Job, the Pod watch may break: the removal of the last task is still undelivered
CONSTANTS N = 1 MaxAtt = 1 Delay = 0 Strategy = "AllSuccessful" PT = 0 FD = 2 TTL = 4 Forbid = FALSE Foreign = FALSE MaxTime = 2 MaxEvq = 2 MaxFaults = 0 MaxCrash = 0 Fresh = FALSE KillDelays = {} KillEdits = {} UserDeletes = TRUE ExtDeletes = FALSE NodeDowns = FALSE
 Rejects = FALSE Holds = FALSE Invalids = FALSE WatchBreaks = TRUE D = 48 K = 25 Goals = {9, 10}
SPECIFICATION GSpec2
VIEW GView
INVARIANTS Goal9 Goal10 Stop
CHECK_DEADLOCK FALSE
