---- MODULE JobLife_Goal ----
\* Directed schedule generation (binding direction A, "test purposes") for the JobLife module. Uniformly random
\* simulation rarely reaches the states from which deep defects manifest (a task created but not recorded when the
\* strategy gets decided; a task marked killed that then succeeds; a kill deadline passing in the middle of a faulty
\* pass ...). Here TLC's breadth-first search finds them: each goal is a state predicate; the first K states (per
\* worker) that satisfy it have the step labels that led to them printed as a schedule - breadth-first, so these are
\* shortest schedules. harness/drivers/joblife.go replays each on the real controller and continues from the reached
\* state with seeded random steps before draining. The VIEW hides the history and output variables, so the search
\* visits the design's state space only once. Nothing here is a verdict: the "invariants" always hold.
EXTENDS JobLife_Sim, TLCExt
CONSTANTS K,      \* schedules printed per goal and worker
          Goals   \* the goals (by number) this configuration looks for; the search stops once each has its quota

GView == <<now, job, pods, jc, pc, jq, pq, wq, timer, retry, pass, down, faults, crashes, rvc, uidc,
           ever, succ, listed, succRec, edited, udel, ttlAt, ttlLB, doneAt, taint, last.a>>
GNext == Next /\ sched' = Append(sched, Proj(last') @@ [e |-> Exp])
GSpec == SInit /\ [][GNext]_svars

Unrecorded(s) == pods[s].ex /\ pods[s].mine /\ job.ex /\ ~job.refs[s].ex
\* a task exists that the Job never recorded, it is alive, and the strategy is decided in truth
G_UnrecordedDecided == \E s \in Slots : Unrecorded(s) /\ Alive(pods[s]) /\ DecidedTruth(pods, ever, succ) /\ ~pass.busy
\* a task that carries a kill marker (DeletedStatus) has succeeded afterwards and still exists
G_MarkedThenSucceeded == \E s \in Slots : job.ex /\ job.refs[s].ex /\ job.refs[s].ds # "" /\ pods[s].ex /\ pods[s].mine /\ pods[s].ph = "S"
\* the kill deadline has passed while a pass is in flight, a fault has been injected and a task is alive
G_KillMidPass == job.ex /\ job.kill # 0 /\ job.kill <= now /\ pass.busy /\ faults > 0 /\ \E s \in Mine(pods) : Alive(pods[s])
\* the Job's recorded condition is Finished while one of its tasks is alive (admission error, cache skew)
G_FinishedWithLive == job.ex /\ ~job.del /\ job.kind = "Finished" /\ \E s \in Mine(pods) : Alive(pods[s]) /\ pods[s].dl = 0
\* the Job is being deleted, tasks exist, and the controller has just restarted
G_DeletingAfterCrash == job.ex /\ job.del /\ last.a = "CrashRestart" /\ \E s \in Mine(pods) : TRUE
\* a retry exists for an index while the other index has not finished its first attempt
G_RetryWhileOtherRuns == \E s \in Mine(pods) : s[2] > 0 /\ Alive(pods[s]) /\ \E t \in Mine(pods) : t[1] # s[1] /\ t[2] = 0 /\ Alive(pods[t]) /\ pods[t].ran

\* ... and the strategy is decided through a task that *is* recorded and has succeeded (the next pass sees the Job complete)
G_UnrecordedNextToSuccess == \E s \in Slots : Unrecorded(s) /\ Alive(pods[s]) /\ ~pass.busy
                                /\ \E t \in Slots : job.refs[t].ex /\ pods[t].ex /\ pods[t].mine /\ pods[t].ph = "S" /\ Strategy = "AnySuccessful"

\* the Job has an admission error (a task was refused for good), another task of it is alive, and a kill deadline lies ahead
G_RefusedWithLiveKillAhead == job.ex /\ job.adm /\ ~job.del /\ job.kill > now /\ ~pass.busy /\ \E s \in Mine(pods) : Alive(pods[s]) /\ pods[s].dl = 0

\* the Job is being deleted, its last task is terminating, and the event of its removal will be lost in a watch break:
\* the Pod is gone from the API, still in the cache, with the removal undelivered
G_LastTaskGoneUnseen == job.ex /\ job.del /\ job.fz /\ ~pass.busy /\ pq # <<>>
                        /\ (\A s \in Slots : ~(pods[s].ex /\ pods[s].mine)) /\ (\E s \in Slots : pc[s].ex /\ pc[s].mine)

\* ... and the watch has just broken: the re-list told the controller (by a tombstone only) that the last task is gone,
\* and nothing else is about to wake the Job
G_LastTaskGoneByRelist == last.a = "PodWatchBreak" /\ job.ex /\ job.del /\ job.fz /\ ~pass.busy /\ jq = <<>> /\ ~retry /\ ~timer
                          /\ \A s \in Slots : ~(pods[s].ex /\ pods[s].mine) /\ ~(pc[s].ex /\ pc[s].mine)

Emit(i, name, G) == ~G \/ TLCGet(i) >= K \/ (TLCSet(i, TLCGet(i) + 1) /\ PrintT(<<"SCHED", ToJson(sched), name>>))
Goal1 == Emit(1, "UnrecordedDecided", G_UnrecordedDecided)
Goal2 == Emit(2, "MarkedThenSucceeded", G_MarkedThenSucceeded)
Goal3 == Emit(3, "KillMidPass", G_KillMidPass)
Goal4 == Emit(4, "FinishedWithLive", G_FinishedWithLive)
Goal5 == Emit(5, "DeletingAfterCrash", G_DeletingAfterCrash)
Goal7 == Emit(7, "UnrecordedNextToSuccess", G_UnrecordedNextToSuccess)
Goal8 == Emit(8, "RefusedWithLiveKillAhead", G_RefusedWithLiveKillAhead)
Goal9 == Emit(9, "LastTaskGoneUnseen", G_LastTaskGoneUnseen)
Goal10 == Emit(10, "LastTaskGoneByRelist", G_LastTaskGoneByRelist)
Goal6 == Emit(6, "RetryWhileOtherRuns", G_RetryWhileOtherRuns)
Stop == \E i \in Goals : TLCGet(i) < K
GInit == SInit /\ \A i \in 1..10 : TLCSet(i, 0)
GSpec2 == GInit /\ [][GNext]_svars
====
