---- MODULE Admission_Cases ----
EXTENDS Admission, Json
VARIABLE c
Bools == {TRUE, FALSE}
FamA == {[fam |-> "A", op |-> op, spec |-> sp, type |-> ty, ttl |-> ttl, tmpl |-> tm, att |-> att, pt |-> pt, par |-> par, pod |-> pod, fin |-> fin, cfgttl |-> ct, cfgpt |-> cp] :
            op \in {"CREATE", "UPDATE"}, sp \in Bools, ty \in {"", "Adhoc", "Scheduled"}, ttl \in {-1, 7}, tm \in {"absent", "present"}, att \in {-1, 3}, pt \in {-1, 0, 9},
            par \in {"absent", "nostrat", "any"}, pod \in {"absent", "norestart", "onfailure"}, fin \in {"none", "dd", "x", "xdd"}, ct \in {-1, 0, 5}, cp \in {-1, 0, 5}}
WellA(x) == /\ (~x.spec => (x.type = "" /\ x.ttl = -1 /\ x.tmpl = "absent"))
            /\ (x.tmpl = "absent" => (x.att = -1 /\ x.pt = -1 /\ x.par = "absent" /\ x.pod = "absent"))
            /\ (x.tmpl = "present" => x.pod # "absent")                 \* taskTemplate is required when a template is given
            /\ (x.op = "UPDATE" => x.spec)
\* tmpluid: the JobConfig's template labels carry the reserved JobConfig-UID key with another JobConfig's UID (template metadata copied from a Job)
FamB == {[fam |-> "B", cfgname |-> cn, policy |-> po, optval |-> ov, subst |-> su, substctx |-> sc, fin |-> fin, label |-> lb, owntmpl |-> ot, otheruid |-> ou, tmpluid |-> tu] :
            cn \in {"missing", "jc1"}, po \in {"", "sa", "Allow", "Enqueue"}, ov \in Bools, su \in Bools, sc \in Bools, fin \in {"none", "x"}, lb \in Bools, ot \in Bools, ou \in Bools, tu \in Bools}
FamC == {[fam |-> "C", op |-> op, old |-> o, new |-> n, lu |-> lu] : op \in {"CREATE", "UPDATE"}, o \in {"none", "s1", "s2", "s1off"}, n \in {"none", "s1", "s2", "s1off"}, lu \in {"unset", "past", "future"}}
WellC(x) == (x.op = "CREATE" => x.old = "none") /\ (x.new = "none" => x.lu = "unset")
FamU == {[fam |-> "U", field |-> f, changed |-> ch, started |-> st, killpassed |-> kp, how |-> how] :
            f \in ImmutableFields \cup {"startPolicy", "killTimestamp", "ttl"}, ch \in Bools, st \in Bools, kp \in Bools, how \in {"value", "set", "unset"}}
WellU(x) == (x.killpassed => x.field = "killTimestamp") /\ (~x.changed => x.how = "value")
            /\ (x.field \in {"type", "uidlabel"} => x.how = "value")
\* Family P: the corpus of cron schedules (shape classes: 5/6/7 fields, H forms, macros, L / W / #, ?, ranges and steps, never-matching
\* and exhausted expressions, malformed ones; time-zone forms; both cron formats; hashing on / off)
Exprs == {"* * * * *", "*/5 * * * *", "0 0 * * *", "5-10,20 1-3 * * 1-5", "H * * * *", "H/15 * * * *", "H(0-30) * * * *", "H H(0-7) * * *", "@daily", "@hourly", "@every 5m",
          "0 0 L * *", "0 0 15W * *", "0 0 * * 5#2", "0 0 * * 5L", "0 0 ? * *", "0 0 * * ?", "0 0 ? * ?", "* * * * * *", "0 * * * * * *", "H H * * * * *",
          "0 0 1 1 * 2020", "0 0 31 2 *", "0 0 30 2 * *", "0 0 * * 7", "0 0 * * 0", "0 0 * * SUN", "0 0 1 JAN *", "60 * * * *", "* * * *", "", "not cron", "*/0 * * * *", "0 0 * * 8"}
TZs == {"", "UTC", "Asia/Singapore", "America/New_York", "UTC+8", "UTC+08:00", "UTC-10:00", "GMT-3", "GMT+5:30", "UTC+25", "Mars/Olympus", "utc", "+08:00", "Local", "Z"}
FamP == {[fam |-> "P", expr |-> e, tz |-> tz, fmt |-> f, hash |-> h] : e \in Exprs, tz \in TZs, f \in {"standard", "quartz"}, h \in Bools}
        \* template metadata copied from another JobConfig's Job: labels with the reserved JobConfig-UID key, and annotations
        \cup {[fam |-> "P", expr |-> e, tz |-> "UTC", fmt |-> "standard", hash |-> TRUE, tl |-> "reserved"] : e \in {"* * * * *", "H * * * *", "0 0 1 1 * 2020"}}
        \cup {[fam |-> "P", expr |-> "", exprs |-> es, tz |-> "UTC", fmt |-> f, hash |-> h] :
                 es \in {<<"0 0 1 1 * 2020", "*/5 * * * *">>, <<"*/5 * * * *", "0 0 1 1 * 2020">>, <<"* * * * *", "not cron">>, <<"H * * * *", "H/2 * * * *">>, <<"0 0 31 2 *">>, <<>>},
                 f \in {"standard", "quartz"}, h \in Bools}
        \cup {[fam |-> "P", expr |-> "* * * * *", exprs |-> <<"*/5 * * * *">>, tz |-> "UTC", fmt |-> "standard", hash |-> TRUE]}
        \* the same schedules submitted as an UPDATE of a JobConfig that was created with a valid schedule
        \cup {[fam |-> "P", expr |-> e, tz |-> tz, fmt |-> "standard", hash |-> TRUE, op |-> "UPDATE"] : e \in Exprs, tz \in TZs}
FamD == {[fam |-> "D", pt1 |-> a, pt2 |-> b] : a \in {-1, 0, 5}, b \in {-1, 0, 9}}
Cases == {x \in FamA : WellA(x)} \cup FamP \cup FamD \cup FamB \cup {x \in FamC : WellC(x)} \cup {x \in FamU : WellU(x)}
Init == c \in Cases
Next == UNCHANGED c
Spec == Init /\ [][Next]_c
InvSpec == /\ (c.fam = "A" => SpecIdempotentA(c))
           /\ (c.fam = "U" => SpecImmutableU(c))
Emit == PrintT(<<"CASE", ToJson(c)>>)
====
