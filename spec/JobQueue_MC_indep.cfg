\* independent Jobs next to owned ones; measured 585 120 distinct states
CONSTANTS Jobs = {1,2} MaxTime = 2 MaxLag = 2 MaxFaults = 1 MaxCrashes = 0 MaxTouch = 0 StartAfters = {0,2} Env = {} Pols = {"Allow","Enqueue"} Owners = {0,1} StoreLag = FALSE
  JCs = {1} MaxC <- MCMaxC1 AppliedFaults = FALSE Scheds = {FALSE} WithJCSync = FALSE
SPECIFICATION Spec
VIEW View
INVARIANTS C06_EnqNeverRefused C06_AllowNotRefused C06_RefusedAtLimit C06_NoStuckQ C07_NeverEarly C07_IndepStarts C07_DueStartsQ S_CounterNonNeg S_CounterExact S_CounterSafe
PROPERTIES C07_RefusedWhenDue C05_Admission C06_Fifo C07_NeverEarlyStep C11_StartStable
CHECK_DEADLOCK FALSE
