CONSTANTS Counts = {1, 5, 6, 8, 9, 10, 16, 32, 50, 64, 68, 69, 70, 71, 128, 500}
  KeyAlphabet = {"a", "ab", "b", "a-b", "", "ba"}
  MaxKeys = 4
  MatrixKeySeqs <- MKS
  ValAlphabet = {"1", "12", "2", "", "21"}
  MaxVals = 2
SPECIFICATION Spec
INVARIANTS InvSize InvDistinct Emit
CHECK_DEADLOCK FALSE
