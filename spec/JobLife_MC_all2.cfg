\* two indexes, AllSuccessful
SPECIFICATION Spec
CONSTANTS
 N = 2
 MaxAtt = 1
 Delay = 1
 Strategy = "AllSuccessful"
 PT = 2
 FD = 2
 TTL = 2
 Forbid = FALSE
 Foreign = FALSE
 MaxTime = 3
 MaxEvq = 2
 MaxFaults = 0
 MaxCrash = 0
 Fresh = TRUE
 KillDelays = {}
 KillEdits = {}
 UserDeletes = FALSE
 ExtDeletes = FALSE
 NodeDowns = FALSE
 Rejects = FALSE
 Holds = FALSE Invalids = FALSE WatchBreaks = FALSE
INVARIANTS TypeOK C08_OneLive C09_NotLost C09_NoForeignAdopt C10_SuccOnly C10_FailOnly G_Kill G_Reaches G_Listed G_Deleted G_Foreign
PROPERTIES C08_Order C08_Delay C08_Gates C09_Keep C10_NoLiveAtFinish C11_Monotone C12_DeleteJustified C12_ForceGate C12_KillSticky C13_Order C13_TTLNotEarly
CHECK_DEADLOCK FALSE
