---- MODULE Status_Cases ----
\* Case enumeration for the Status module (C10, C11): one TLC state per case; the laws of Status.tla are the
\* invariants, the cases are printed for harness/drivers/status.go.
\*   pod   Pod shape x existing recorded ref  -> GetTaskRef / GenerateTaskRefs on a listed task
\*   lost  existing recorded ref whose task is no longer listed
\*   job   Job context x strategy x maxAttempts x recorded refs per index -> condition, state, phase
EXTENDS Status, Json
VARIABLE c
Bools == {TRUE, FALSE}
CKinds == {"waiting", "running", "ok", "err", "oom"}
CSeqs == {<<>>} \cup {<<a>> : a \in CKinds} \cup {<<a, b>> : a \in CKinds, b \in CKinds}
Pods == {[phase |-> ph, del |-> d, st |-> s, dl |-> FALSE, cs |-> cs] :
            ph \in {"Pending", "Running", "Succeeded", "Failed", "Unknown"}, d \in Bools, s \in Bools, cs \in CSeqs}
        \* the kubelet ended the Pod at its active deadline: no container reports a terminated state
        \cup {[phase |-> "Failed", del |-> d, st |-> TRUE, dl |-> TRUE, cs |-> cs] : d \in Bools, cs \in {<<>>, <<"running">>, <<"waiting">>, <<"running", "ok">>}}
DS(s, r) == [set |-> TRUE, state |-> s, result |-> r]
ExRefs == {NoRef,
           [ex |-> TRUE, run |-> 0, fin |-> 0, state |-> "Starting", result |-> "", ds |-> NoDS],
           [ex |-> TRUE, run |-> 8, fin |-> 0, state |-> "Running", result |-> "", ds |-> NoDS],
           [ex |-> TRUE, run |-> 8, fin |-> 15, state |-> "Terminated", result |-> "Succeeded", ds |-> DS("Terminated", "Succeeded")],
           [ex |-> TRUE, run |-> 8, fin |-> 0, state |-> "Killing", result |-> "", ds |-> DS("Terminated", "Killed")],
           [ex |-> TRUE, run |-> 0, fin |-> 15, state |-> "DeletedFinalStateUnknown", result |-> "", ds |-> NoDS],
           [ex |-> TRUE, run |-> 8, fin |-> 15, state |-> "Terminated", result |-> "Succeeded", ds |-> NoDS]}
PodCases == {[case |-> "pod", pd |-> pd, ref |-> ex] : pd \in Pods, ex \in ExRefs}
LostCases == {[case |-> "lost", ref |-> ex] : ex \in ExRefs \ {NoRef}}

\* recorded refs of a Job: kind at position k (creation order) of one index
R(kind, k) == CASE kind = "st" -> [cr |-> 6 + k, run |-> 0, fin |-> 0, result |-> "", state |-> "Starting"]
                [] kind = "run" -> [cr |-> 6 + k, run |-> 8 + k, fin |-> 0, result |-> "", state |-> "Running"]
                [] kind = "ok" -> [cr |-> 6 + k, run |-> 8 + k, fin |-> 20 + 3 * k, result |-> "Succeeded", state |-> "Terminated"]
                [] kind = "fail" -> [cr |-> 6 + k, run |-> 8 + k, fin |-> 20 + 3 * k, result |-> "Failed", state |-> "Terminated"]
                \* a task that was created early and finished late (finish times are not ordered like creation times)
                [] kind = "oklate" -> [cr |-> 6 + k, run |-> 8 + k, fin |-> 50 - 3 * k, result |-> "Succeeded", state |-> "Terminated"]
                [] kind = "lost" -> [cr |-> 6 + k, run |-> 0, fin |-> 20 + 3 * k, result |-> "", state |-> "DeletedFinalStateUnknown"]
                [] kind = "killed" -> [cr |-> 6 + k, run |-> 8 + k, fin |-> 20 + 3 * k, result |-> "Killed", state |-> "Terminated"]
Seqs(K, o) == {<<>>} \cup {<<R(a, o + 1)>> : a \in K} \cup {<<R(a, o + 1), R(b, o + 2)>> : a \in K, b \in K}
K6 == {"st", "run", "ok", "fail", "lost", "killed"}
K4 == {"st", "run", "ok", "fail", "oklate"}
Ctxs == {"queued", "queuedsa", "queuedenq", "started", "killfuture", "killpast", "adm", "admold", "deleting", "deletingq"}
JobCases == {[case |-> "job", jb |-> [par |-> FALSE, strat |-> "AllSuccessful", maxAtt |-> m, ctx |-> x, idx |-> <<s>>]] :
                m \in 1..3, x \in Ctxs, s \in Seqs(K6, 0)}
            \cup {[case |-> "job", jb |-> [par |-> TRUE, strat |-> st, maxAtt |-> m, ctx |-> x, idx |-> <<s1, s2>>]] :
                st \in {"AllSuccessful", "AnySuccessful"}, m \in 1..2, x \in Ctxs \ {"queuedsa", "queuedenq", "admold", "deletingq"},
                s1 \in Seqs(K4, 0), s2 \in Seqs(K4, 2)}
Init == c \in PodCases \cup LostCases \cup JobCases
Next == UNCHANGED c
Spec == Init /\ [][Next]_c
InvSpec == CASE c.case = "pod" -> L_TaskTruth(c.pd) /\ L_KeepTimes(c.ref, c.pd)
             [] c.case = "lost" -> L_LostKeeps(c.ref)
             [] c.case = "job" -> L_Result(c.jb) /\ L_Coherent(c.jb)
Emit == PrintT(<<"CASE", ToJson(c)>>)
====
