---- MODULE JobQueueProps ----
\* Property formulas of C05, C06, C07 (and the JobConfig-status part of C15) as
\* operators over explicit state arguments, so that the design specification
\* (JobQueue), the log-driven monitor (MonJobQueue) and the refinement check
\* (TraceJobQueue) evaluate literally the same definitions.
\*
\* A Job record: [ex, jc, pol, sa, st, term, adm, admc, rv, cr, del]
\*   ex    exists in the API          jc   owning JobConfig (0 = independent)
\*   pol   concurrency policy         sa   startAfter tick (0 = none)
\*   st    startTime tick (-1 unset)  term phase is terminal
\*   adm   admission-error annotation admc active count quoted in its message
\*   rv    per-object version         cr   creationTimestamp tick (1 s resolution)
\*   del   deletionTimestamp set
EXTENDS Integers, FiniteSets, Sequences

None == -1
Started(r) == r.ex /\ r.st # None
Active(r)  == Started(r) /\ ~r.term
Queued(r)  == r.ex /\ ~Started(r) /\ ~r.term

TrueActive(api, c) == Cardinality({k \in DOMAIN api : Active(api[k]) /\ api[k].jc = c})
StartsNow(api, apiN, j) == api[j].ex /\ ~Started(api[j]) /\ Started(apiN[j])

\* ---- C05: never more than maxConcurrency started, unfinished Jobs (Forbid / Enqueue) ----
\* judged against the authoritative API state at the instant of the start write
C05_AdmissionStep(api, apiN, maxc) ==
    \A j \in DOMAIN api :
        (StartsNow(api, apiN, j) /\ api[j].pol # "Allow" /\ api[j].jc # 0) => TrueActive(api, api[j].jc) < maxc[api[j].jc]

\* ---- C06 ----
\* pass = [t0, view]: clock and Job cache at the SyncBegin of the per-config pass that performs the write
C06_FifoStep(api, apiN, pass) ==
    \A j \in DOMAIN api :
        (StartsNow(api, apiN, j) /\ api[j].pol = "Enqueue" /\ api[j].jc # 0) =>
            ~\E k \in DOMAIN api :
                /\ k \in DOMAIN pass.view
                /\ pass.view[k].ex /\ pass.view[k].jc = api[j].jc
                /\ pass.view[k].cr < api[j].cr
                /\ Queued(pass.view[k]) /\ pass.view[k].pol = "Enqueue"
                /\ pass.view[k].sa <= pass.t0
                /\ Queued(apiN[k]) /\ ~apiN[k].adm
\* a Forbid Job is never started at the limit (it is refused instead): C05's condition, stated for the Forbid policy
C06_ForbidNotStartedAtLimitStep(api, apiN, maxc) ==
    \A j \in DOMAIN api :
        (StartsNow(api, apiN, j) /\ api[j].pol = "Forbid" /\ api[j].jc # 0) => TrueActive(api, api[j].jc) < maxc[api[j].jc]
C06_EnqueueNeverRefused(api) == \A j \in DOMAIN api : (api[j].ex /\ api[j].pol = "Enqueue") => ~api[j].adm
C06_AllowNeverRefused(api)   == \A j \in DOMAIN api : (api[j].ex /\ api[j].pol = "Allow") => ~api[j].adm
\* a refusal quotes the active count it was based on: it must have been at the limit
C06_RefusedOnlyAtLimit(api, maxc) == \A j \in DOMAIN api : (api[j].ex /\ api[j].adm /\ api[j].jc # 0) => api[j].admc >= maxc[api[j].jc]
\* at quiescence nothing startable is left queued: only Enqueue Jobs of a JobConfig at its limit may wait
C06_NoStuck(api, now, maxc) ==
    \A j \in DOMAIN api :
        (Queued(api[j]) /\ ~api[j].adm /\ api[j].sa <= now /\ api[j].jc # 0) =>
            (api[j].pol = "Enqueue" /\ TrueActive(api, api[j].jc) >= maxc[api[j].jc])

\* ---- C07 ----
C07_NotEarly(api) == \A j \in DOMAIN api : Started(api[j]) => api[j].st >= api[j].sa
C07_NotEarlyStep(api, apiN, nowN) == \A j \in DOMAIN api : StartsNow(api, apiN, j) => (nowN >= api[j].sa /\ apiN[j].st <= nowN)
\* the concurrency policy is applied once the Job is due: a refusal is never written for a Job whose startAfter is still ahead
C07_RefusedOnlyWhenDueStep(api, apiN, nowN) == \A j \in DOMAIN api : (api[j].ex /\ ~api[j].adm /\ apiN[j].adm) => nowN >= apiN[j].sa
\* once its startAfter has passed, a JobConfig's Job is started as soon as the policy allows: at quiescence only an
\* Enqueue Job of a JobConfig at its limit may still wait
C07_DueStarts(api, now, maxc) ==
    \A j \in DOMAIN api :
        (Queued(api[j]) /\ ~api[j].adm /\ api[j].sa # 0 /\ api[j].sa <= now /\ api[j].jc # 0) =>
            (api[j].pol = "Enqueue" /\ TrueActive(api, api[j].jc) >= maxc[api[j].jc])
C07_IndependentStarts(api, now) == \A j \in DOMAIN api : (Queued(api[j]) /\ api[j].jc = 0 /\ ~api[j].adm) => api[j].sa > now

\* ---- C15: JobConfig status (jobconfigcontroller) ----
\* jc = [active, queued (sets of Job ids), nactive, nqueued, lastSch, lastExe, state]
IdsOf(api, c, P(_)) == {j \in DOMAIN api : api[j].jc = c /\ P(api[j])}
C15_Exact(api, c, jc, ids(_)) ==
    /\ ids(jc.active) = IdsOf(api, c, Active)
    /\ ids(jc.queued) = IdsOf(api, c, Queued)
    /\ jc.nactive = Cardinality(IdsOf(api, c, Active))
    /\ jc.nqueued = Cardinality(IdsOf(api, c, Queued))
    /\ jc.state = (IF jc.nactive > 0 THEN "Executing" ELSE IF jc.nqueued > 0 THEN "JobQueued" ELSE "Ready")
C15_MonotoneStep(jc, jcN) == jcN.lastSch >= jc.lastSch /\ jcN.lastExe >= jc.lastExe

\* ---- C11 (queue-controller part): startTime, once set, never changes ----
C11_StartTimeStable(api, apiN) == \A j \in DOMAIN api : (Started(api[j]) /\ apiN[j].ex) => apiN[j].st = api[j].st
====
