---- MODULE Cron_MC ----
EXTENDS Cron
W0 == {<<-1, -1>>}
W1 == {<<-1, -1>>, <<3, -1>>, <<-1, 4>>}
View == <<now, booted, api, cache, evq, addch, updch, heap, wq, retry, sync, jobs, jcache, jevq, ops, faults, restarts, lo, req, lastfired, reqs, ever, act>>
====
