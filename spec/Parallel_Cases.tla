---- MODULE Parallel_Cases ----
\* Case enumeration for C14: one TLC state per parallelism spec up to the bounds; the specification's own
\* properties are invariants; every case is printed as JSON for the harness (binding F).
EXTENDS Parallel, Json, SequencesExt
CONSTANTS Counts, KeyAlphabet, MaxKeys, MatrixKeySeqs, ValAlphabet, MaxVals
VARIABLE c
SeqsUpTo(S, n) == UNION {[1..k -> S] : k \in 1..n}
Rows(k) == [1..k -> SeqsUpTo(ValAlphabet, MaxVals)]
Cases == {[kind |-> "count", n |-> n] : n \in Counts}
         \cup {[kind |-> "keys", keys |-> ks] : ks \in SeqsUpTo(KeyAlphabet, MaxKeys)}
         \cup UNION {{[kind |-> "matrix", mk |-> mk, mv |-> mv] : mv \in Rows(Len(mk))} : mk \in MatrixKeySeqs}
Mixed == {[kind |-> "mixed", types |-> t] : t \in {<<"count", "keys">>, <<"count", "matrix">>, <<"keys", "matrix">>, <<"count", "keys", "matrix">>}}
MKS == {<<"goarch">>, <<"goarch", "goos">>, <<"a", "ab", "b">>}
MKSbig == MKS \cup {<<"a", "b", "c", "d">>}
Init == c \in Cases \cup Mixed
Next == UNCHANGED c
Spec == Init /\ [][Next]_c
InvSize == c.kind = "mixed" \/ SpecSize(c)
InvDistinct == c.kind = "mixed" \/ SpecDistinct(c)
Emit == PrintT(<<"CASE", ToJson(c)>>)
====
