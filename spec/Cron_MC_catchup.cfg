CONSTANTS JCs = {1} Horizon = 9 Ids = {1,2,3} Windows <- W1 MaxMissed = 2 MaxDown = 3 MaxOps = 1 MaxLag = 1 MaxFaults = 0 MaxRestarts = 2 MaxTick = 4
  Pols = {"Allow"} PreBoot = TRUE WithRecon = FALSE Workers = {1} Relists = FALSE
SPECIFICATION Spec
INVARIANTS TypeOK
PROPERTIES C01_C03_C04_Pass C04_BootHeap
CHECK_DEADLOCK FALSE
