\* jobconfig controller next to the queue controller: its own status write undelivered while the Job it lists leaves
CONSTANTS Jobs = {1,2} JCs = {1} MaxC <- MCMaxC1 MaxTime = 2 MaxLag = 3 MaxFaults = 0 MaxCrashes = 0 MaxTouch = 0
  StoreLag = FALSE AppliedFaults = FALSE StartAfters = {0} Owners = {1} Pols = {"Enqueue"} Scheds = {FALSE, TRUE} WithJCSync = TRUE
  Env = {"Remove"} D = 50 K = 25 Goals = {1, 2}
SPECIFICATION GSpec
VIEW GView
INVARIANTS Goal1 Goal2 Stop
CHECK_DEADLOCK FALSE
