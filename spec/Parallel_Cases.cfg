CONSTANTS Counts = {1, 2, 3, 4, 7, 69, 70, 100, 300}
  KeyAlphabet = {"a", "ab", "b", "a-b", ""}
  MaxKeys = 3
  MatrixKeySeqs <- MKS
  ValAlphabet = {"1", "12", "2", ""}
  MaxVals = 2
SPECIFICATION Spec
INVARIANTS InvSize InvDistinct Emit
CHECK_DEADLOCK FALSE
