CONSTANTS JCs = {1,2} Horizon = 14 Ids = {0,1,2,3} Windows <- W1 MaxMissed = 2 MaxDown = 3 MaxOps = 6 MaxLag = 3 MaxFaults = 2 MaxRestarts = 2 MaxTick = 4
  Pols = {"Allow"} PreBoot = TRUE WithRecon = TRUE Workers = {1, 2} Relists = FALSE D = 45
SPECIFICATION SSpec
INVARIANT EmitDone
CHECK_DEADLOCK FALSE
