---- MODULE Status ----
\* Functional specification of furiko's status derivation, the chain every reconcile pass of the job
\* controller runs and on which C10 (the result is what the tasks imply) and C11 (the status is
\* self-consistent and only moves forward) rest:
\*
\*   Pod  --PodTask.GetTaskRef-->  task status  --jobutil.GetTaskRef / GenerateTaskRefs-->  recorded TaskRefs
\*        --parallel.GetParallelStatus-->  per-index status + summary
\*        --jobutil.GetCondition + the deletion override of UpdateJobStatusFromTaskRefs-->  condition
\*        --getJobStateFromCondition / jobutil.GetPhase-->  coarse state, phase
\*
\* JobLife.tla carries a coarser transcription of the same chain (Pods are P/R/S/F with a "ran" flag); this
\* module is the detailed one: container states, OOM, deadline-exceeded Pods, missing container statuses,
\* deletion in progress, retained timestamps, DeletedStatus, reasons and phases. It is a specification of
\* pure functions; Status_Cases.tla enumerates the inputs, the laws below are checked on every case, and
\* harness/drivers/status.go evaluates the real functions on the same cases (MonStatus compares).
\*
\* Time: small integers, 0 = unset. Fixed instants: Pod created at Tcr, status.startTime Tst, container k
\* started at CStart(k) and terminated at CFin(k), spec.activeDeadlineSeconds ADS, "now" is Now.
EXTENDS Integers, Sequences, FiniteSets, TLC

Tcr == 5
Tst == 10
ADS == 30
Now == 50
CStart(k) == 11 + k
CFin(k) == 20 + 5 * k
MaxOf(S) == IF S = {} THEN 0 ELSE CHOOSE m \in S : \A x \in S : x <= m

--------------------------------------------------------------------------
\* Pod -> task status (podtaskexecutor.PodTask)
\* pd = [phase, del, st, dl, cs]: status.phase, deletionTimestamp set, status.startTime set,
\* status.reason = DeadlineExceeded (with spec.activeDeadlineSeconds), container states in order:
\* "waiting" | "running" | "ok" | "err" | "oom"
Terminated(c) == c \in {"ok", "err", "oom"}
PodFinished(pd) == pd.phase \in {"Succeeded", "Failed"}
PodOOM(pd) == \E k \in 1..Len(pd.cs) : pd.cs[k] = "oom"
PodState(pd) == IF pd.del /\ ~PodFinished(pd) THEN "Killing"
                ELSE IF pd.phase = "Running" THEN "Running"
                ELSE IF PodFinished(pd) THEN "Terminated"
                ELSE "Starting"
PodResult(pd) == IF PodOOM(pd) THEN "Failed"
                 ELSE IF pd.phase = "Succeeded" THEN "Succeeded"
                 ELSE IF pd.phase = "Failed" THEN "Failed"
                 ELSE ""
PodRun(pd) == MaxOf({CStart(k) : k \in {i \in 1..Len(pd.cs) : pd.cs[i] = "running" \/ Terminated(pd.cs[i])}})
PodFin(pd) ==
    IF ~PodFinished(pd) THEN 0
    ELSE LET t == MaxOf({CFin(k) : k \in {i \in 1..Len(pd.cs) : Terminated(pd.cs[i])}}) IN
         IF t # 0 THEN t
         ELSE IF pd.dl THEN Tst + ADS
         ELSE IF pd.st THEN Tst
         ELSE Tcr

--------------------------------------------------------------------------
\* recorded TaskRef: [ex, run, fin, state, result, ds] with ds = [set, state, result] (DeletedStatus)
NoDS == [set |-> FALSE, state |-> "", result |-> ""]
NoRef == [ex |-> FALSE, run |-> 0, fin |-> 0, state |-> "", result |-> "", ds |-> NoDS]
\* jobutil.GetTaskRef(existing, task)
Merge(ex, pd) ==
    LET f == PodFin(pd)  r == PodRun(pd) IN
    [ex |-> TRUE,
     run |-> IF r = 0 /\ ex.ex THEN ex.run ELSE r,
     fin |-> IF f = 0 /\ ex.ex THEN ex.fin ELSE f,
     state |-> PodState(pd), result |-> PodResult(pd),
     ds |-> IF f # 0 THEN [set |-> TRUE, state |-> PodState(pd), result |-> PodResult(pd)]
            ELSE IF ex.ex THEN ex.ds ELSE NoDS]
\* GenerateTaskRefs for a recorded task whose object is no longer listed
Lost(ex) ==
    [ex EXCEPT !.fin = IF ex.fin = 0 THEN Now ELSE ex.fin,
               !.state = IF ex.ds.set THEN ex.ds.state ELSE "DeletedFinalStateUnknown",
               !.result = IF ex.ds.set THEN ex.ds.result ELSE ex.result]

--------------------------------------------------------------------------
\* recorded refs -> index status (parallel.getIndexStatus); refs = sequence of [cr, run, fin, result, state]
IdxStatus(refs, maxAtt) ==
    LET n == Len(refs)
        I == 1..n
        nTerm == Cardinality({i \in I : refs[i].fin # 0})
        nRun == Cardinality({i \in I : refs[i].fin = 0 /\ refs[i].run # 0})
        nStart == Cardinality({i \in I : refs[i].fin = 0 /\ refs[i].run = 0})
        sc == \E i \in I : refs[i].result = "Succeeded"
        fl == ~sc /\ nTerm >= maxAtt
    IN [created |-> n,
        state |-> IF n = 0 THEN "NotCreated"
                  ELSE IF nTerm = n /\ ~sc /\ ~fl THEN "RetryBackoff"
                  ELSE IF nTerm = n THEN "Terminated"
                  ELSE IF nRun > 0 THEN "Running"
                  ELSE "Starting",
        result |-> IF sc THEN "Succeeded" ELSE IF fl THEN "Failed" ELSE ""]

\* a Job for status purposes: jb = [par, strat, maxAtt, ctx, idx]
\*   par     the Job has a parallelism spec (idx has two entries) or not (one entry, strategy AllSuccessful)
\*   ctx     "queued" | "queuedsa" (startAfter set) | "queuedenq" (Enqueue) | "started" | "killfuture" | "killpast"
\*           | "adm" (admission-error annotation, started) | "admold" (same, a finish time was recorded before)
\*           | "deleting" (started, deletionTimestamp set) | "deletingq" (not started, deletionTimestamp set)
\*   idx     per index the recorded refs in creation order
Started(jb) == jb.ctx \notin {"queued", "queuedsa", "queuedenq", "deletingq"}
NIdx(jb) == Len(jb.idx)
Strat(jb) == IF jb.par THEN jb.strat ELSE "AllSuccessful"
Stats(jb) == [i \in 1..NIdx(jb) |-> IdxStatus(jb.idx[i], jb.maxAtt)]
Cnt(jb, P(_)) == Cardinality({i \in 1..NIdx(jb) : P(Stats(jb)[i])})
Summary(jb) ==
    LET nS == Cnt(jb, LAMBDA s : s.result = "Succeeded")
        nF == Cnt(jb, LAMBDA s : s.result = "Failed")
        sc == IF Strat(jb) = "AllSuccessful" THEN nS >= NIdx(jb) ELSE nS > 0
        fl == IF Strat(jb) = "AllSuccessful" THEN nF > 0 ELSE nF >= NIdx(jb)
    IN [complete |-> sc \/ fl, successful |-> sc]
RefSet(jb) == UNION {{jb.idx[i][k] : k \in 1..Len(jb.idx[i])} : i \in 1..NIdx(jb)}
LatestFin(jb) == MaxOf({r.fin : r \in RefSet(jb)})
LatestCr(jb) == MaxOf({r.cr : r \in RefSet(jb)})
KillAt == 30      \* "killpast": the kill timestamp (before Now); "killfuture": Now + 10

\* jobutil.GetCondition, then the deletion override
BaseCond(jb) ==
    LET n == NIdx(jb)
        created == Cnt(jb, LAMBDA s : s.state # "NotCreated")
        term == Cnt(jb, LAMBDA s : s.state \in {"NotCreated", "RetryBackoff", "Terminated"})
        backoff == Cnt(jb, LAMBDA s : s.state = "RetryBackoff")
        starting == Cnt(jb, LAMBDA s : s.state = "Starting")
        sum == Summary(jb)
        lf == LatestFin(jb)
        C(k, res, rsn, ft, tt) == [kind |-> k, result |-> res, reason |-> rsn, fints |-> ft, terminating |-> tt]
    IN IF jb.ctx = "adm" THEN C("Finished", "AdmissionError", "AdmissionError", Now, 0)
       ELSE IF jb.ctx = "admold" THEN C("Finished", "AdmissionError", "AdmissionError", 40, 0)
       ELSE IF ~Started(jb) THEN
            C("Queueing", "", IF jb.ctx = "queuedsa" THEN "NotYetDue" ELSE IF jb.ctx = "queuedenq" THEN "Queued" ELSE "", 0, 0)
       ELSE IF jb.ctx = "killpast" THEN
            (IF term >= n THEN C("Finished", "Killed", "", IF lf # 0 THEN lf ELSE KillAt, 0)
             ELSE C("Waiting", "", "DeletingTasks", 0, 0))
       ELSE IF ~sum.complete THEN
            (IF created < n THEN C("Waiting", "", "PendingCreation", 0, 0)
             ELSE IF backoff > 0 THEN C("Waiting", "", "RetryBackoff", 0, 0)
             ELSE IF starting > 0 THEN C("Waiting", "", "WaitingForTasks", 0, 0)
             ELSE C("Running", "", "", 0, 0))
       ELSE IF term < n THEN C("Running", "", "", 0, n - term)
       ELSE C("Finished", IF jb.ctx = "killfuture" THEN "Killed" ELSE IF sum.successful THEN "Success" ELSE "Failed", "", lf, 0)
Deleting(jb) == jb.ctx \in {"deleting", "deletingq"}
\* a Job that is being deleted and is not finished is reported Killed; its finish time is the present, except that
\* a Job in the Running condition gets the creation time of its latest task (as coded)
Cond(jb) == LET b == BaseCond(jb) IN
            IF Deleting(jb) /\ b.kind # "Finished"
            THEN [kind |-> "Finished", result |-> "Killed", reason |-> "", terminating |-> 0,
                  fints |-> IF b.kind = "Running" THEN LatestCr(jb) ELSE Now] ELSE b

StateOfKind(k) == CASE k = "Queueing" -> "Queued" [] k = "Waiting" -> "Waiting" [] k = "Running" -> "Running" [] k = "Finished" -> "Finished"
\* jobutil.GetPhase on the final condition
Phase(jb) ==
    LET c == Cond(jb)
        total == Cardinality(RefSet(jb))
        backoff == Cnt(jb, LAMBDA s : s.state = "RetryBackoff")
        retrying == Cnt(jb, LAMBDA s : s.state = "Starting" /\ s.created > 1)
    IN IF c.kind = "Finished" THEN
            (CASE c.result = "Success" -> "Succeeded" [] c.result = "Failed" -> "Failed" [] c.result = "Killed" -> "Killed"
               [] c.result = "AdmissionError" -> "AdmissionError" [] OTHER -> "FinishedUnknown")
       ELSE IF jb.ctx = "killpast" THEN "Killing"
       ELSE IF c.kind = "Running" THEN (IF c.terminating > 0 THEN "Terminating" ELSE "Running")
       ELSE IF c.kind = "Waiting" THEN
            (IF total = 0 THEN "Starting"
             ELSE IF ~jb.par THEN
                  (LET refs == jb.idx[1]  last == refs[Len(refs)] IN
                   IF last.fin # 0 THEN "RetryBackoff" ELSE IF Len(refs) > 1 THEN "Retrying" ELSE "Pending")
             ELSE IF backoff > 0 THEN "RetryBackoff" ELSE IF retrying > 0 THEN "Retrying" ELSE "Pending")
       ELSE "Queued"

--------------------------------------------------------------------------
\* Laws (what C10 and C11 demand of these functions; checked on every enumerated case)
TerminalPhase(p) == p \in {"Succeeded", "Failed", "Killed", "AdmissionError", "FinishedUnknown"}
\* C10: a task counts as succeeded only if its Pod really succeeded, as failed only if it failed or was OOM-killed
L_TaskTruth(pd) == /\ (PodResult(pd) = "Succeeded") => (pd.phase = "Succeeded" /\ ~PodOOM(pd))
                   /\ (PodResult(pd) = "Failed") => (pd.phase = "Failed" \/ PodOOM(pd))
                   /\ (PodFin(pd) # 0) <=> PodFinished(pd)
                   /\ (PodState(pd) = "Terminated") <=> PodFinished(pd)
\* C11: recorded running / finish times are never cleared, a finished task always has a finish time and a last known state
L_KeepTimes(ex, pd) == LET m == Merge(ex, pd) IN
                       /\ (ex.ex /\ ex.run # 0) => m.run # 0
                       /\ (ex.ex /\ ex.fin # 0) => m.fin # 0
                       /\ PodFinished(pd) => (m.fin # 0 /\ m.ds.set /\ m.ds.state = "Terminated")
                       /\ (ex.ex /\ ex.ds.set /\ ~PodFinished(pd)) => m.ds = ex.ds
L_LostKeeps(ex) == LET x == Lost(ex) IN
                   /\ x.fin # 0 /\ (ex.fin # 0 => x.fin = ex.fin) /\ x.run = ex.run
                   /\ (ex.result = "Succeeded" /\ ~ex.ds.set) => x.result = "Succeeded"
\* C10: the result is what the recorded task outcomes and the strategy imply
SuccIdx(jb, i) == \E k \in 1..Len(jb.idx[i]) : jb.idx[i][k].result = "Succeeded"
ExhIdx(jb, i) == ~SuccIdx(jb, i) /\ Cardinality({k \in 1..Len(jb.idx[i]) : jb.idx[i][k].fin # 0}) >= jb.maxAtt
L_Result(jb) == LET c == Cond(jb)  I == 1..NIdx(jb) IN
                /\ (c.result = "Success") => (IF Strat(jb) = "AllSuccessful" THEN \A i \in I : SuccIdx(jb, i) ELSE \E i \in I : SuccIdx(jb, i))
                /\ (c.result = "Failed") => (IF Strat(jb) = "AllSuccessful" THEN \E i \in I : ExhIdx(jb, i) ELSE \A i \in I : ExhIdx(jb, i))
                \* and it is not reported while a recorded task is still unfinished
                /\ (c.result \in {"Success", "Failed"}) => \A r \in RefSet(jb) : r.fin # 0
                \* conversely: started, not killed, not refused, not being deleted, decided and nothing unfinished => finished with that result
                /\ (jb.ctx = "started" /\ Summary(jb).complete /\ \A r \in RefSet(jb) : r.fin # 0) => c.result \in {"Success", "Failed"}
\* C11: the phase is terminal exactly when the condition is Finished; a finished condition has a finish time; queued iff not started
L_Coherent(jb) == LET c == Cond(jb) IN
                  /\ TerminalPhase(Phase(jb)) <=> c.kind = "Finished"
                  /\ (c.kind = "Finished") => c.fints # 0
                  /\ (c.kind = "Queueing") <=> (~Started(jb) /\ ~Deleting(jb))
                  /\ (jb.ctx = "killpast") => (c.kind \in {"Finished", "Waiting"})
====
