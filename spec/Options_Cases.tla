---- MODULE Options_Cases ----
\* Case enumeration for C18: option config x submitted value (evaluation), and substitution cases
\* (which sources define the variable x what else the template contains).
EXTENDS Options, Json
VARIABLE c
Bools == {TRUE, FALSE}
OString == {[type |-> "string", required |-> r, def |-> d, trim |-> t] : r \in Bools, d \in {"", "d", " d "}, t \in Bools}
OSelect == {[type |-> "select", required |-> r, def |-> d, custom |-> cu, values |-> <<"v1", "v2">>] : r \in Bools, d \in {"", "v1", "zz"}, cu \in Bools}
OMulti == {[type |-> "multi", required |-> r, def |-> d, custom |-> cu, values |-> <<"v1", "v2">>, delim |-> dl] :
              r \in Bools, d \in {<<>>, <<"v1">>, <<"v2", "v1">>}, cu \in Bools, dl \in {",", "", " -x "}}
OBool == {[type |-> "bool", required |-> FALSE, def |-> d, format |-> f, tv |-> "--flag", fv |-> ""] : d \in Bools, f \in {"TrueFalse", "OneZero", "YesNo", "Custom"}}
ODate == {[type |-> "date", required |-> r, format |-> f] : r \in Bools, f \in {"YYYY-MM-DD", "HH:mm"}}
Str(s) == [k |-> "str", s |-> s]
VCommon == {[k |-> "absent"], [k |-> "null"], [k |-> "num"]}
VString == VCommon \cup {Str(s) : s \in {"", "  ", " v1 ", "v1", "custom", "${option.b}"}} \cup {[k |-> "bool", b |-> TRUE]}
VMulti == VCommon \cup {[k |-> "list", l |-> l] : l \in {<<>>, <<"v1">>, <<"v2", "v1">>, <<"v1", "custom">>, <<"v1", "">>}} \cup {[k |-> "badlist"], Str("v1")}
VBool == VCommon \cup {[k |-> "bool", b |-> b] : b \in Bools} \cup {Str("true")}
VDate == VCommon \cup {Str(s) : s \in {"", "2021-02-09T04:06:09Z", "not-a-date"}}
EvalCases == {[case |-> "eval", o |-> o, val |-> v] : o \in OString \cup OSelect, v \in VString}
             \cup {[case |-> "eval", o |-> o, val |-> v] : o \in OMulti, v \in VMulti}
             \cup {[case |-> "eval", o |-> o, val |-> v] : o \in OBool, v \in VBool}
             \cup {[case |-> "eval", o |-> o, val |-> v] : o \in ODate, v \in VDate}
\* substitution: variable option.a; which of the three option-value sources define it, and with which kind of value
SrcSets == SUBSET {"explicit", "value", "default"}
SubCases == {[case |-> "subst", srcs |-> S, vk |-> vk, ctx |-> cx] : S \in SrcSets, vk \in {"plain", "var"}, cx \in {"none", "explicit"}}
Init == c \in EvalCases \cup SubCases
Next == UNCHANGED c
Spec == Init /\ [][Next]_c
InvSpec == c.case = "eval" => (SpecDefaultAgrees(c.o) /\ SpecNullIsAbsent(c.o) /\ SpecSelectConstraint(c.o, c.val) /\ SpecRequired(c.o, c.val))
Emit == PrintT(<<"CASE", ToJson(c)>>)
====
