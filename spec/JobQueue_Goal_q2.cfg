\* queue controller, maxConcurrency 2: a restart with two active Jobs and a third one waiting
CONSTANTS Jobs = {1,2,3} JCs = {1} MaxC <- MCMaxC2 MaxTime = 2 MaxLag = 3 MaxFaults = 0 MaxCrashes = 1 MaxTouch = 0
  StoreLag = FALSE AppliedFaults = FALSE StartAfters = {0} Owners = {1} Pols = {"Enqueue", "Forbid"} Scheds = {FALSE} WithJCSync = FALSE
  Env = {} D = 50 K = 25 Goals = {7}
SPECIFICATION GSpec
VIEW GView
INVARIANTS Goal7 Stop
CHECK_DEADLOCK FALSE
