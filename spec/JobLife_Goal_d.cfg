\* two indexes, one attempt, a Pod create refused for good, kill two ticks ahead: admission error next to a live task with a kill deadline ahead
CONSTANTS N = 2 MaxAtt = 1 Delay = 0 Strategy = "AllSuccessful" PT = 0 FD = 2 TTL = 4 Forbid = FALSE Foreign = FALSE MaxTime = 3 MaxEvq = 2 MaxFaults = 1 MaxCrash = 0 Fresh = TRUE KillDelays = {2} KillEdits = {} UserDeletes = FALSE ExtDeletes = FALSE NodeDowns = FALSE
 Rejects = FALSE Holds = FALSE Invalids = TRUE WatchBreaks = FALSE D = 48 K = 25 Goals = {8}
SPECIFICATION GSpec2
VIEW GView
INVARIANTS Goal8 Stop
CHECK_DEADLOCK FALSE
